---- MODULE EnvCount ----
EXTENDS Reps, Json, IOUtils, TLC
Data  == JsonDeserialize(IOEnv.OBS_FILE)
Cases == Data.cases
N     == Len(Cases)
VARIABLE p
Init == p = 1
Next == p' \in {2 * p, 2 * p + 1} /\ p' <= N
Report == p > N \/ PrintT("@@E " \o ToJson([pid |-> Cases[p].pid, n |-> Cardinality(Envs(Cases[p].prog, Static(Cases[p].prog).isApp)),
     si |-> Cardinality(SizeIdx(Cases[p].prog)), own |-> Cardinality(OwnSpace(Cases[p].prog, FALSE)), oth |-> Cardinality(OtherSpace(Cases[p].prog))]) \o " E@@")
====
