-------------------------------- MODULE Solver --------------------------------
(***************************************************************************)
(* The dataflow engine of tealer (generic.DataflowTransactionContext:      *)
(* forward_analyis / backward_analysis) as a state machine over the graph  *)
(* of Cfg.tla, for an analysis whose values are tuples of finite sets      *)
(* (GroupIndices: <<sizes, indices>>; TxnType base key: <<kinds>>), shaped *)
(* like the code:                                                          *)
(*                                                                         *)
(*   FwdPop(b) recompute reachout[b] = ReachIn(b) /\ constraint[b]; on     *)
(*             change append the global successors and, for a callsub      *)
(*             block, its return point (each only if not already queued)   *)
(*   FwdDone   constraint := reachout; liveout := constraint on leaves,    *)
(*             empty elsewhere; the backward worklist is installed         *)
(*   BwdPop(b) liveout[b] = LiveIn(b) /\ constraint[b] (leaves unchanged); *)
(*             on change append global predecessors (+ the call site of a  *)
(*             return point)                                               *)
(*   BwdDone   result := liveout                                           *)
(*                                                                         *)
(* The block and edge constraints (what the instructions assert) and the   *)
(* two initial worklists are INPUT: extracting constraints is the business *)
(* of ProgCheck / ExactJudge, and the order of the initial worklists       *)
(* depends on the iteration order of a Python set of objects.              *)
(* Next-state relations built from these actions:                          *)
(*   SolverTrace    the code's schedule - FIFO, the popped block is the    *)
(*                  head - consumed event by event from a recorded run     *)
(*   SolverAny      any queued block may be popped, any order of the       *)
(*                  initial worklists: all schedules, to show that the     *)
(*                  result does not depend on the order (C14)              *)
(***************************************************************************)
EXTENDS Cfg

CONSTANTS P,          \* the program (instruction records)
          Keys,       \* number of components of a value
          Univ,       \* <<universe of component 1, ...>>
          Prsv0,      \* block -> value: constraint asserted inside the block
          Edge0       \* sequence of [to, from, val]: constraint of that edge (absent: universe)

G  == Graph(P)
FB == FunctionBlocks(G, P)
Top == [k \in 1..Keys |-> Univ[k]]
Bot == [k \in 1..Keys |-> {}]
Meet(a, b) == [k \in 1..Keys |-> a[k] \cap b[k]]
Join(a, b) == [k \in 1..Keys |-> a[k] \cup b[k]]
JoinAll(S) == [k \in 1..Keys |-> UNION { v[k] : v \in S }]
EdgeC(s, p) == LET hit == { i \in 1..Len(Edge0) : Edge0[i].to = s /\ Edge0[i].from = p }
               IN IF hit = {} THEN Top ELSE Edge0[CHOOSE i \in hit : TRUE].val

RegionOf(b) == IF b \in G.mainBlocks THEN "__main__" ELSE CHOOSE nm \in G.subNames : b \in G.subBlocks[nm]
FCallers(nm) == SelectSeq(SortedSeq(FB), LAMBDA b : IsCallBlock(G, P, b) /\ Callee(G, P, b) = nm)
FRetPts(nm) == LET cs == SelectSeq(FCallers(nm), LAMBDA c : ReturnPoint(G, c) # -1)
               IN [i \in 1..Len(cs) |-> ReturnPoint(G, cs[i])]
Retsubs(nm) == SortedSeq(SubRetsubs(G, P, G.subBlocks[nm]))
IsRetPt(b) == \E c \in FB : IsCallBlock(G, P, c) /\ ReturnPoint(G, c) = b
CallSiteOf(b) == CHOOSE c \in FB : IsCallBlock(G, P, c) /\ ReturnPoint(G, c) = b
IsLeafG(b) == IsLeaf(G, P, b)

(* global successors / predecessors *)
NextG(b) == IF IsRetsubBlock(G, P, b) THEN FRetPts(RegionOf(b))
            ELSE IF IsCallBlock(G, P, b) THEN << G.subEntry[Callee(G, P, b)] >>
            ELSE G.succ[b]
LocalPrev(b) == SelectSeq(SortedSeq(FB), LAMBDA a : b \in SuccSet(G, a))
PrevG(b) == IF RegionOf(b) # "__main__" /\ b = G.subEntry[RegionOf(b)] THEN FCallers(RegionOf(b))
            ELSE IF b = 0 THEN << >>
            ELSE IF IsRetPt(b) THEN Retsubs(Callee(G, P, CallSiteOf(b)))
                                    \o SelectSeq(LocalPrev(b), LAMBDA a : ~IsCallBlock(G, P, a))
            ELSE LocalPrev(b)

VARIABLES phase,     \* "fwd-start", "fwd", "bwd-start", "bwd", "done"
          prsv,      \* block -> value (block constraints; after the forward pass: reachout)
          out,       \* block -> value (reachout / liveout)
          wl         \* the worklist (sequence of blocks)
vars == << phase, prsv, out, wl >>

Init == /\ phase = "fwd-start"
        /\ prsv = [b \in FB |-> Prsv0[b]]
        /\ out = [b \in FB |-> Bot]
        /\ wl = << >>

ReachIn(b) ==
    LET base == IF b = 0 THEN Top ELSE Bot
        viaRet == JoinAll({ Meet(out[p], EdgeC(b, p)) : p \in { q \in SeqToSet(PrevG(b)) : ~IsRetPt(b) \/ IsRetsubBlock(G, P, q) } })
        viaJump == JoinAll({ Meet(out[p], EdgeC(b, p)) : p \in { q \in SeqToSet(PrevG(b)) : IsRetPt(b) /\ ~IsRetsubBlock(G, P, q) } })
    IN  IF IsRetPt(b) THEN Join(Meet(Join(base, viaRet), out[CallSiteOf(b)]), viaJump)
        ELSE Join(base, viaRet)

(* values with which the execution can end inside the subroutine called by c (its leaves, nested callees included) *)
ExitInfo(c) ==
    LET s1 == { Callee(G, P, c) }
        more(S) == S \cup { Callee(G, P, b) : b \in { x \in UNION { G.subBlocks[nm] : nm \in S } : IsCallBlock(G, P, x) } }
        s4 == more(more(more(s1)))
    IN JoinAll({ out[b] : b \in { x \in UNION { G.subBlocks[nm] : nm \in s4 } : IsLeafG(x) } })
LiveIn(b) ==
    LET u == JoinAll({ Meet(out[s], EdgeC(s, b)) : s \in SeqToSet(NextG(b)) })
    IN  IF IsCallBlock(G, P, b) /\ ReturnPoint(G, b) # -1 /\ Retsubs(Callee(G, P, b)) # << >>
        THEN Meet(u, Join(out[ReturnPoint(G, b)], ExitInfo(b)))
        ELSE u

AppendNew(q, xs) == LET RECURSIVE A(_, _)
                        A(acc, i) == IF i > Len(xs) THEN acc
                                     ELSE A(IF xs[i] \in SeqToSet(acc) THEN acc ELSE Append(acc, xs[i]), i + 1)
                    IN A(q, 1)
Without(q, b) == SelectSeq(q, LAMBDA x : x # b)       \* (b occurs at most once)

(* q is the worklist `rest` with the blocks of `more` that were not queued appended in some order.  *)
(* (the order in which the code appends them is the order of block.next / block.prev / the caller   *)
(* lists, which depends on construction order and is not part of any property)                      *)
Appended(rest, more, q) ==
    /\ Len(q) >= Len(rest) /\ SubSeq(q, 1, Len(rest)) = rest
    /\ SeqToSet(q) = SeqToSet(rest) \cup SeqToSet(more)
    /\ Cardinality(SeqToSet(q)) = Len(q)

(* the initial worklists: every block once (forward), every non-leaf block once (backward) *)
Start(ph, wl0) == /\ phase = ph \o "-start"
                  /\ SeqToSet(wl0) = (IF ph = "fwd" THEN FB ELSE { b \in FB : ~IsLeafG(b) })
                  /\ Cardinality(SeqToSet(wl0)) = Len(wl0)
                  /\ phase' = ph /\ wl' = wl0 /\ UNCHANGED << prsv, out >>

FwdNew(b)  == Meet(ReachIn(b), prsv[b])
FwdMore(b) == NextG(b) \o (IF IsCallBlock(G, P, b) /\ ReturnPoint(G, b) # -1 THEN << ReturnPoint(G, b) >> ELSE << >>)
BwdNew(b)  == IF IsLeafG(b) THEN out[b] ELSE Meet(LiveIn(b), prsv[b])
BwdMore(b) == PrevG(b) \o (IF IsRetPt(b) THEN << CallSiteOf(b) >> ELSE << >>)

(* pop b, leaving the worklist q *)
FwdPop(b, q) ==
    /\ phase = "fwd" /\ b \in SeqToSet(wl)
    /\ out' = [out EXCEPT ![b] = FwdNew(b)]
    /\ IF FwdNew(b) # out[b] THEN Appended(Without(wl, b), FwdMore(b), q) ELSE q = Without(wl, b)
    /\ wl' = q
    /\ UNCHANGED << phase, prsv >>
FwdDone ==
    /\ phase = "fwd" /\ wl = << >>
    /\ prsv' = out
    /\ out' = [b \in FB |-> IF IsLeafG(b) THEN out[b] ELSE Bot]
    /\ phase' = "bwd-start" /\ UNCHANGED wl
BwdPop(b, q) ==
    /\ phase = "bwd" /\ b \in SeqToSet(wl)
    /\ out' = [out EXCEPT ![b] = BwdNew(b)]
    /\ IF BwdNew(b) # out[b] THEN Appended(Without(wl, b), BwdMore(b), q) ELSE q = Without(wl, b)
    /\ wl' = q
    /\ UNCHANGED << phase, prsv >>
BwdDone ==
    /\ phase = "bwd" /\ wl = << >>
    /\ phase' = "done" /\ UNCHANGED << prsv, out, wl >>
(* the deterministic choice of q: new blocks appended in the order of FwdMore / BwdMore *)
FwdQ(b) == IF FwdNew(b) # out[b] THEN AppendNew(Without(wl, b), FwdMore(b)) ELSE Without(wl, b)
BwdQ(b) == IF BwdNew(b) # out[b] THEN AppendNew(Without(wl, b), BwdMore(b)) ELSE Without(wl, b)
=============================================================================
