------------------------------ MODULE RegexCheck ------------------------------
(***************************************************************************)
(* C20.  The regex engine works on the instruction-level graph.  For every *)
(* generated program and every query of Queries(P) (a start label or "*",  *)
(* and a pattern cut out of the program text - present, overlapping,       *)
(* spanning block boundaries - or made absent by appending an instruction  *)
(* the program does not contain), the REAL match_regex() was run; here its *)
(* answer is judged against the definitions below.                         *)
(*  c20.matches        reported matches = reachable straight-line          *)
(*                     occurrences of the pattern                          *)
(*  c20.covered-extra  every covered instruction lies on a path from the   *)
(*                     start to a match                                    *)
(*  c20.covered-missing every instruction on such a path (the match start  *)
(*                     itself excepted) is covered                         *)
(***************************************************************************)
EXTENDS Cfg, Json, IOUtils, SequencesExt

Data  == JsonDeserialize(IOEnv.OBS_FILE)
Cases == Data.cases
N     == Len(Cases)

(* successors of instruction i as a SEQUENCE (fall-through, then jump targets): a branch to the
   next line has two successors there, as in the tool's instruction graph *)
InsNext(P, i) == (IF FallsThrough(P, i) /\ i < Len(P) THEN << i + 1 >> ELSE << >>) \o JumpTargets(P, i)

RetainedLines(G) == UNION { SeqToSet(BlockLines(G, b)) : b \in G.retained }

(* the queries run on program P: [label, s, m, absent] *)
Queries(P) ==
    LET n == Len(P)
        labels == {"*"} \cup { P[i].s : i \in { j \in 1..n : P[j].op = "label" } }
        starts == { 2, 1 + (n \div 3), 1 + ((2 * n) \div 3), n - 1 } \cap 2..n
        some  == IF labels = {"*"} THEN "*" ELSE CHOOSE l \in labels \ {"*"} : TRUE
    IN  { [label |-> "*", s |-> s, m |-> m, absent |-> FALSE] : s \in starts, m \in { k \in 1..3 : TRUE } }
        \cup { [label |-> l, s |-> 1 + (n \div 3), m |-> 2, absent |-> FALSE] : l \in labels }
        \cup { [label |-> some, s |-> 2, m |-> 1, absent |-> FALSE], [label |-> "*", s |-> 2, m |-> 1, absent |-> TRUE],
               [label |-> "no_such_label", s |-> 2, m |-> 1, absent |-> FALSE] }
Pattern(P, q) == LET e == IF q.s + q.m - 1 > Len(P) THEN Len(P) ELSE q.s + q.m - 1
                 IN SubSeq(P, q.s, e) \o (IF q.absent THEN << IntC(424242) >> ELSE << >>)

Expected(P, q) ==
    LET G == Graph(P)
        live == RetainedLines(G)
        pat == Pattern(P, q)
        start == IF q.label = "*" THEN 1 ELSE LabelPos(P, q.label)
        nxt == TLCEval([i \in 1..Len(P) |-> IF i \in live THEN SeqToSet(InsNext(P, i)) ELSE {}])
        reachTab == ReachSets(1..Len(P), nxt)
        reach == IF start = 0 \/ start \notin live THEN {} ELSE reachTab[start]
        \* pattern occurs at i: a chain of instructions with identical text in straight-line code - every matched
        \* instruction but the last is not a conditional branch and has exactly one successor in the instruction
        \* graph, the next matched one (an unconditional `b` is followed to its label: consecutive in execution)
        nx(c) == IF c = 0 THEN 0
                 ELSE IF P[c].op \notin {"bz", "bnz", "switch", "match"} /\ Len(InsNext(P, c)) = 1 THEN InsNext(P, c)[1] ELSE 0
        chain(i) == LET c2 == nx(i)
                        c3 == nx(c2)
                        c4 == nx(c3)
                        c5 == nx(c4)
                    IN << i, c2, c3, c4, c5 >>
        occurs(i) == /\ Len(pat) <= 5
                     /\ \A k \in 1..Len(pat) : chain(i)[k] # 0 /\ P[chain(i)[k]] = pat[k]
        starts == { i \in reach : occurs(i) }
        onPath == { i \in reach : \E s \in starts : s \in reachTab[i] }
    IN [ matches |-> { [k \in 1..Len(pat) |-> chain(s)[k]] : s \in starts }, starts |-> starts, onPath |-> onPath ]

V(ok, clause, obs, exp) == IF ok THEN << >> ELSE << [clause |-> clause, obs |-> ToJson(obs), exp |-> ToJson(exp)] >>

Violations(x) ==
    LET P == x.prog
        q == x.query
        o == x.obs
        e == Expected(P, q)
    IN V(o.ok, "c20.crash", o.exc, "completes")
    \o (IF ~o.ok THEN << >> ELSE
          V(SeqToSet(o.matches) = e.matches /\ Len(o.matches) = Cardinality(e.matches), "c20.matches", o.matches, e.matches)
       \o V(SeqToSet(o.covered) \subseteq e.onPath, "c20.covered-extra", SeqToSet(o.covered) \ e.onPath, e.onPath)
       \o V((e.onPath \ e.starts) \subseteq SeqToSet(o.covered), "c20.covered-missing",
            (e.onPath \ e.starts) \ SeqToSet(o.covered), e.onPath))

VARIABLE p
Init == p = 1
Next == p' \in {2 * p, 2 * p + 1} /\ p' <= N
Report ==
    p > N \/
    LET x  == Cases[p]
        vs == Violations(x)
        e  == Expected(x.prog, x.query)
    IN  /\ \A i \in 1..Len(vs) :
               PrintT("@@W " \o ToJson([pid |-> x.pid, clause |-> vs[i].clause, obs |-> vs[i].obs, exp |-> vs[i].exp]) \o " W@@")
        /\ PrintT("@@S " \o ToJson([pid |-> x.pid, nm |-> Cardinality(e.starts), np |-> Cardinality(e.onPath)]) \o " S@@")

(* ---- emission of the queries (same operator, so the judge and the harness agree by construction) ---- *)
QEmit ==
    p > N \/
    LET c == Cases[p]
        qs == SetToSeq(Queries(c.prog))
    IN \A i \in 1..Len(qs) :
          PrintT("@@Q " \o ToJson([pid |-> c.pid, query |-> qs[i], pattern |-> Pattern(c.prog, qs[i])]) \o " Q@@")
=============================================================================
