------------------------------- MODULE SeqCheck -------------------------------
(***************************************************************************)
(* C11(b) and the program-level half of C19, on the straight-line programs *)
(* of SeqGen.tla parsed by the REAL tool.                                  *)
(*  c11.operands   for every instruction and stack argument: the producer  *)
(*                 the tool reconstructed (instruction line, output index) *)
(*                 or "unknown" equals the one obtained by running the     *)
(*                 block on a tagged stack with the AVM's own pop / push   *)
(*                 counts (AvmTable), bottom of the stack unknown          *)
(*  c19.flags      lines flagged as unsupported = lines whose opcode (or,  *)
(*                 else, field) was introduced after the declared version  *)
(*  c19.version / c19.mode / c19.mixed / c19.type   program classification *)
(*  c19.block-cost displayed block cost = sum of AVM opcode costs          *)
(***************************************************************************)
EXTENDS LineGen, Json, IOUtils, SequencesExt

Data  == JsonDeserialize(IOEnv.OBS_FILE)
Cases == Data.cases
N     == Len(Cases)

V(ok, clause, b, obs, exp) == IF ok THEN << >> ELSE << [clause |-> clause, b |-> b, obs |-> ToJson(obs), exp |-> ToJson(exp)] >>
Cat(seqs) == LET RECURSIVE CC(_)
                 CC(i) == IF i = 0 THEN << >> ELSE CC(i - 1) \o seqs[i]
             IN CC(Len(seqs))

(* tagged execution: the stack holds <<line, output index>>; << 0, 0 >> stands for "from before the block" *)
SeqToSet(sq) == { sq[i] : i \in 1..Len(sq) }
UNKNOWN == << 0, 0 >>
Tagged(lines, first, ver) ==
    LET RECURSIVE Run(_, _, _)
        Run(i, stk, acc) ==
            IF i > Len(lines) THEN acc
            ELSE LET c == lines[i]
                     r == Row(c.op, c.n, c.k, c.s, ver)
                     have == Len(stk)
                     args == IF have >= r.pops THEN SubSeq(stk, have - r.pops + 1, have)
                             ELSE [x \in 1..(r.pops - have) |-> UNKNOWN] \o stk
                     rest == IF have >= r.pops THEN SubSeq(stk, 1, have - r.pops) ELSE << >>
                     outs == [o \in 1..r.pushes |-> << first + i - 1, o - 1 >>]
                 IN Run(i + 1, rest \o outs, Append(acc, args))
    IN Run(1, << >>, << >>)

Violations(x) ==
    LET o == x.obs
        ver == IF x.v = 0 THEN 1 ELSE x.v
        first == IF x.v = 0 THEN 1 ELSE 2                 \* source line of the first generated line
        n == Len(x.lines)
        nl == x.nlive                                     \* lines 1..nl form the entry block, the rest is dead code
        rows == [i \in 1..n |-> Row(x.lines[i].op, x.lines[i].n, x.lines[i].k, x.lines[i].s, ver)]
        unsureLines == { first + i - 1 : i \in { j \in 1..n : rows[j].conf = "unsure" } }
        insFlag == { first + i - 1 : i \in { j \in 1..n : rows[j].ver > ver /\ rows[j].conf = "sure" } }
        fldFlag == { first + i - 1 : i \in { j \in 1..n : rows[j].ver <= ver /\ FieldVer(x.lines[j]) > ver } }
        \* fields of asset / application / account parameter opcodes are not tabulated in AvmTable
        otherFieldLines == { first + i - 1 : i \in { j \in 1..n : x.lines[j].op \in { "asset_holding_get", "asset_params_get",
                                                                                    "app_params_get", "acct_params_get" } } }
        supported == \A i \in 1..n : rows[i].ver <= ver
        hasApp == \E i \in 1..n : rows[i].mode = "app"
        hasSig == \E i \in 1..n : rows[i].mode = "sig"
        sure == \A i \in 1..n : rows[i].conf = "sure"
        sureLive == \A i \in 1..nl : rows[i].conf = "sure"
        cost == LET RECURSIVE S(_)
                    S(i) == IF i = 0 THEN 0 ELSE S(i - 1) + rows[i].cost
                IN S(nl)
        want == Tagged(SubSeq(x.lines, 1, nl), first, ver)
    IN
       V(o.ok, "c19.parse-error", -1, o.exc, "parses")
    \o (IF ~o.ok THEN << >> ELSE
          V(o.version = ver, "c19.version", -1, o.version, ver)
       \o V(SeqToSet(o.flag_ins) \ unsureLines = insFlag, "c19.flags", -1, o.flag_ins, insFlag)
       \o V(SeqToSet(o.flag_field) \ otherFieldLines = fldFlag, "c19.field-flags", -1, o.flag_field, fldFlag)
       \o V(o.mixed = (hasApp /\ hasSig), "c19.mixed", -1, o.mixed, hasApp /\ hasSig)
       \o (IF hasApp /\ hasSig THEN << >>
           ELSE V(o.mode = (IF hasApp THEN "Stateful" ELSE IF hasSig THEN "Stateless" ELSE "Any"), "c19.mode", -1, o.mode,
                  IF hasApp THEN "Stateful" ELSE IF hasSig THEN "Stateless" ELSE "Any")
             \o V(o.ctype = (IF hasApp THEN "ApprovalProgram" ELSE "LogicSig"), "c19.type", -1, o.ctype,
                  IF hasApp THEN "ApprovalProgram" ELSE "LogicSig"))
       \* dead code is assembled all the same: it is flagged for its version and decides the run mode (above)
       \o (IF sureLive /\ supported /\ Len(o.block_lines) = nl + first - 1
           THEN V(o.block_cost = cost, "c19.block-cost", -1, o.block_cost, cost) ELSE << >>)
       \o Cat([i \in 1..nl |->
                 IF i > Len(o.args) THEN V(FALSE, "c11.operands", first + i - 1, "missing", want[i])
                 ELSE V(o.args[i] = want[i], "c11.operands", first + i - 1, o.args[i], want[i])]))

VARIABLE p
Init == p = 1
Next == p' \in {2 * p, 2 * p + 1} /\ p' <= N
Report ==
    p > N \/
    LET x  == Cases[p]
        vs == Violations(x)
    IN  /\ \A i \in 1..Len(vs) :
               PrintT("@@W " \o ToJson([pid |-> x.pid, clause |-> vs[i].clause, b |-> vs[i].b, obs |-> vs[i].obs,
                                       exp |-> vs[i].exp]) \o " W@@")
        /\ PrintT("@@S " \o ToJson([pid |-> x.pid]) \o " S@@")
=============================================================================
