-------------------------------- MODULE Reps --------------------------------
(***************************************************************************)
(* The input space of a program: concrete transaction groups, one          *)
(* representative per region cut out by the program's own constants        *)
(* (c-1, c, c+1 for every integer constant, the named addresses plus a     *)
(* fresh one, every well-formed transaction kind).  Only fields the        *)
(* program READS are enumerated in the state space; fields it never reads  *)
(* cannot influence the run, so the check modules quantify over them       *)
(* inside the clauses (Variants) instead of multiplying states.            *)
(***************************************************************************)
EXTENDS Avm

IntConsts(P) == { P[i].n : i \in { j \in 1..Len(P) : P[j].op \in {"int", "pushint"} } }
                \cup UNION { SeqToSet(P[i].ns) : i \in { j \in 1..Len(P) : P[j].op = "intcblock" } }
ReadsOwn(P)   == { P[i].s : i \in { j \in 1..Len(P) : P[j].op = "txn" } }
ReadsGroup(P) == { P[i].s : i \in { j \in 1..Len(P) : P[j].op \in {"gtxn", "gtxns"} } }
ReadsGlobal(P) == { P[i].s : i \in { j \in 1..Len(P) : P[j].op = "global" } }
HasGroupReads(P) == ReadsGroup(P) # {}
HasGtxns(P) == \E i \in 1..Len(P) : P[i].op = "gtxns"

Around(C, lo, hi) == { v \in UNION { {c - 1, c, c + 1} : c \in C } : lo <= v /\ v <= hi }

(* ---- own transaction ---- *)
TypeDims == { "TypeEnum", "OnCompletion", "ApplicationID", "CloseRemainderTo", "AssetCloseTo" }
Kind(te, oc, appid) == [te |-> te, oc |-> oc, appid |-> appid]
(* every well-formed (TypeEnum, OnCompletion, ApplicationID) of a transaction the program may be
   attached to: a logic signature signs any transaction; an approval program only sees application
   calls and never ClearState; ApplicationID is 0 exactly at creation *)
AllKinds(isApp) ==
    IF isApp THEN { Kind(6, oc, id) : oc \in {0, 1, 2, 4, 5}, id \in {0, 7} }
    ELSE { Kind(te, 0, 0) : te \in 1..5 } \cup { Kind(6, oc, id) : oc \in 0..5, id \in {0, 7} }
(* the kinds the detectors care about, used for dimensions the program never reads *)
FewKinds(isApp) ==
    IF isApp THEN { Kind(6, 4, 7), Kind(6, 5, 7), Kind(6, 0, 7) }
    ELSE { Kind(1, 0, 0), Kind(4, 0, 0), Kind(6, 4, 7), Kind(6, 5, 7) }

(* integer constants a Fee comparison can involve: everything >= 100, plus 0/1 for `Fee == 0`, `Fee > 0` *)
FeeReps(P)  == {0, 1, 272000, 272001, U64MAX}
               \cup Around({ c \in IntConsts(P) : 100 <= c /\ c <= 1000000 }, 0, 1000001)
AddrReps    == {ZEROADDR, 1, 2, CREATOR, ATTACKER}
FreeReps    == {0, 1, 7}

(* the state-space part of the own transaction: read fields vary, the others sit at a default that
   Variants() later replaces *)
OwnSpace(P, isApp) ==
    LET rd == ReadsOwn(P) \cup ReadsGroup(P)
        kinds == IF rd \cap TypeDims # {} THEN AllKinds(isApp) ELSE { CHOOSE k \in FewKinds(isApp) : TRUE }
        sp(f, S, d) == IF f \in rd THEN S ELSE {d}
    IN { [ te |-> k.te, oc |-> k.oc, appid |-> k.appid, fee |-> fee, snd |-> snd, rekey |-> rk,
           close |-> cl, aclose |-> ac, fv |-> fv, lv |-> lv, amt |-> amt, aamt |-> aamt ] :
         k \in kinds, fee \in sp("Fee", FeeReps(P), 272001), snd \in sp("Sender", AddrReps \ {ZEROADDR}, ATTACKER),
         rk \in sp("RekeyTo", AddrReps, ATTACKER),
         cl \in sp("CloseRemainderTo", AddrReps, ZEROADDR), ac \in sp("AssetCloseTo", AddrReps, ZEROADDR),
         fv \in sp("FirstValid", FreeReps, 0), lv \in sp("LastValid", FreeReps, 0),
         amt \in sp("Amount", FreeReps, 0), aamt \in sp("AssetAmount", FreeReps, 0) }

(* on-chain consistency: close-to fields exist only on the matching transaction type *)
WellFormed(t) == /\ (t.close # ZEROADDR => t.te = 1)
                 /\ (t.aclose # ZEROADDR => t.te = 4)

(* ---- other group members: reduced representatives of the fields read through the group ---- *)
OtherSpace(P) ==
    LET rd == ReadsGroup(P)
        sp(f, S, d) == IF f \in rd THEN S ELSE {d}
        kinds == IF rd \cap {"TypeEnum", "OnCompletion", "ApplicationID"} # {}
                 THEN { Kind(1, 0, 0), Kind(4, 0, 0), Kind(6, 4, 7), Kind(6, 0, 0) }
                 ELSE IF "CloseRemainderTo" \in rd THEN { Kind(1, 0, 0) }
                 ELSE IF "AssetCloseTo" \in rd THEN { Kind(4, 0, 0) }
                 ELSE { Kind(1, 0, 0) }
        feeSmall == {0, 272001} \cup { c \in IntConsts(P) : 100 <= c /\ c <= 1000000 }
    IN { [ te |-> k.te, oc |-> k.oc, appid |-> k.appid, fee |-> fee, snd |-> snd, rekey |-> rk,
           close |-> cl, aclose |-> ac, fv |-> 0, lv |-> 0, amt |-> 0, aamt |-> 0 ] :
         k \in kinds, fee \in sp("Fee", feeSmall, 1000), snd \in sp("Sender", {1, ATTACKER}, 1),
         rk \in sp("RekeyTo", {ZEROADDR, 1, ATTACKER}, ZEROADDR),
         cl \in sp("CloseRemainderTo", {ZEROADDR, 1, ATTACKER}, ZEROADDR),
         ac \in sp("AssetCloseTo", {ZEROADDR, 1, ATTACKER}, ZEROADDR) }

(* ---- group shape ---- *)
(* absolute positions the program reads: `gtxn i f`, and `int i` directly consumed by `gtxns f` *)
AbsPos(P) == { P[i].n : i \in { j \in 1..Len(P) : P[j].op = "gtxn" } }
             \cup { P[i].n : i \in { j \in 1..(Len(P) - 1) : P[j].op \in {"int", "pushint"} /\ P[j + 1].op = "gtxns" } }
             \* ... the sum of two constants (`int a; int b; +; gtxns f`)
             \cup { P[j].n + P[j + 1].n :
                    j \in { k \in 1..(Len(P) - 3) : /\ P[k].op \in {"int", "pushint"} /\ P[k + 1].op \in {"int", "pushint"}
                                                    /\ P[k + 2].op = "+" /\ P[k + 3].op = "gtxns"
                                                    /\ P[k].n + P[k + 1].n <= 15 } }
             \* ... and small constants pushed shortly before a `swap; gtxns` (the index, or the value swapped away)
             \cup { P[i].n : i \in { j \in 1..Len(P) : /\ P[j].op \in {"int", "pushint"} /\ P[j].n <= 15
                                                       /\ \E k \in (j + 1)..(j + 5) : k + 1 <= Len(P) /\ P[k].op = "swap"
                                                                                       /\ P[k + 1].op = "gtxns" } }
(* offsets: `int k` feeding a + / - whose result is consumed by `gtxns f` *)
Offsets(P) ==
    { P[i].n : i \in { j \in 1..Len(P) : /\ P[j].op \in {"int", "pushint"}
                                         /\ \/ (j + 2 <= Len(P) /\ P[j + 1].op \in {"+", "-"} /\ P[j + 2].op = "gtxns"
                                                 /\ ~(j > 1 /\ P[j - 1].op \in {"int", "pushint"}))
                                            \* `int a; int b; +; gtxns`: a wrong reading of a as an offset must find a transaction there
                                            \/ (j + 3 <= Len(P) /\ P[j + 1].op \in {"int", "pushint"} /\ P[j + 2].op = "+"
                                                 /\ P[j + 3].op = "gtxns")
                                            \/ (j + 3 <= Len(P) /\ P[j + 1].op \in {"+", "-"} /\ P[j + 2].op = "swap"
                                                 /\ P[j + 3].op = "gtxns")
                                            \/ (j + 3 <= Len(P) /\ P[j + 1].op = "txn" /\ P[j + 2].op \in {"+", "-"}
                                                 /\ P[j + 3].op = "gtxns") } }

SizeIdx(P) ==
    LET direct == "GroupSize" \in ReadsGlobal(P) \/ "GroupIndex" \in ReadsOwn(P)
        ap == AbsPos(P)
    IN  IF HasGroupReads(P)
        THEN { << s, g >> \in { v \in {1, 2, 3, 16} \cup { a + 1 : a \in ap } \cup { a + 2 : a \in ap } : v <= 16 }
                              \X { v \in {0, 1, 2, 15} \cup ap \cup { a + 1 : a \in ap } : v <= 15 } : g < s }
        ELSE IF direct THEN { << s, g >> \in (1..16) \X (0..15) : g < s }
        ELSE { << 1, 0 >>, << 16, 0 >>, << 16, 15 >> }

(* positions of other members the program can look at in a group of size s with own index g *)
OtherPositions(P, s, g) ==
    LET rel == { g + k : k \in Offsets(P) } \cup { g - k : k \in Offsets(P) }
    IN  { q \in (AbsPos(P) \cup rel) : 0 <= q /\ q < s /\ q # g }

Envs(P, isApp) ==
    UNION { LET s == sg[1]
                g == sg[2]
                Q == OtherPositions(P, s, g)
            IN { [ size |-> s, idx |-> g, tx |-> [q \in Q \cup {g} |-> IF q = g THEN own ELSE oth[q]] ] :
                 own \in { t \in OwnSpace(P, isApp) : WellFormed(t) },
                 oth \in [Q -> { t \in OtherSpace(P) : WellFormed(t) }] }
          : sg \in SizeIdx(P) }

(* ---- values of the fields the program never reads: quantified inside the clauses ---- *)
VariantsRd(rd, isApp, env) ==
    LET own == env.tx[env.idx]
        kinds == IF rd \cap TypeDims # {} THEN { Kind(own.te, own.oc, own.appid) } ELSE FewKinds(isApp)
        alt(f, cur, d) == IF f \in rd THEN cur ELSE d
    IN { [ env EXCEPT !.tx[env.idx] =
             [ own EXCEPT !.te = k.te, !.oc = k.oc, !.appid = k.appid,
                          !.fee = alt("Fee", own.fee, 272001),
                          !.snd = alt("Sender", own.snd, ATTACKER),
                          !.rekey = alt("RekeyTo", own.rekey, ATTACKER),
                          !.close = IF "CloseRemainderTo" \in rd THEN own.close
                                    ELSE IF k.te = 1 THEN ATTACKER ELSE ZEROADDR,
                          !.aclose = IF "AssetCloseTo" \in rd THEN own.aclose
                                     ELSE IF k.te = 4 THEN ATTACKER ELSE ZEROADDR ] ]
         : k \in kinds }
Variants(P, isApp, env) == VariantsRd(ReadsOwn(P) \cup ReadsGroup(P), isApp, env)
=============================================================================
