----------------------------- MODULE SearchCheck -----------------------------
(***************************************************************************)
(* C02: every path a detector of the REAL tool reported is validated, as a *)
(* trace, against the walk machine over Cfg!Graph: one TLC behaviour per   *)
(* reported path, one step per consumed block, with an explicit call stack *)
(* (retsub must resume after ITS OWN callsub) and a stack of per-          *)
(* activation visited sets (no block twice within one activation).         *)
(* The first state of each behaviour also judges the clauses that concern  *)
(* the whole path (no block the tool's own context excludes, no duplicate, *)
(* renderings), and one extra state per (program, detector) judges the     *)
(* verdict against the tool's own contexts:                                *)
(*   c01.search-complete  a valid path of non-excluded blocks to a leaf    *)
(*                        exists  =>  some path is reported                *)
(*   c02.no-valid-path    some path is reported  =>  such a path exists    *)
(***************************************************************************)
EXTENDS PathReach, Json, IOUtils, SequencesExt

Data  == JsonDeserialize(IOEnv.OBS_FILE)
Cases == Data.cases
N     == Len(Cases)
GR    == [p \in 1..N |-> Graph(Cases[p].prog)]

DetectorNames == << "rekey-to", "can-close-account", "can-close-asset", "missing-fee-check", "is-updatable",
                    "is-deletable", "unprotected-updatable", "unprotected-deletable", "group-size-check" >>

(* the detectors' "dangerous value excluded" predicates, as the properties state them *)
Checks(d, c, isSub) ==
    LET ks == SeqToSet(c.kinds) IN
    CASE d = "rekey-to"              -> ~c.rekey.any
      [] d = "can-close-account"     -> ~(c.close.any /\ "Pay" \in ks)
      [] d = "can-close-asset"       -> ~(c.aclose.any /\ "Axfer" \in ks)
      [] d = "missing-fee-check"     -> c.feeunk \/ c.fee <= 272000
      [] d = "is-updatable"          -> "ApplUpdateApplication" \notin ks
      [] d = "is-deletable"          -> "ApplDeleteApplication" \notin ks
      [] d = "unprotected-updatable" -> ~("ApplUpdateApplication" \in ks /\ c.sender.any)
      [] d = "unprotected-deletable" -> ~("ApplDeleteApplication" \in ks /\ c.sender.any)
      [] d = "group-size-check"      -> IF isSub THEN FALSE ELSE 16 \notin SeqToSet(c.sizes)
(* excluded at a block: by the block's own information, or by the information recorded for
   "this transaction at index i" for every index i the block may have *)
Excluded(d, c) ==
    \/ Checks(d, c, FALSE)
    \/ \A i \in SeqToSet(c.indices) : Checks(d, c.pool[c.G[i + 1]], TRUE)

Paths(p, di) == Cases[p].obs.det[DetectorNames[di]].paths

JoinArrow(ids) == LET RECURSIVE J(_)
                      J(k) == IF k = 0 THEN "" ELSE IF k = 1 THEN ToString(ids[1])
                              ELSE J(k - 1) \o " -> " \o ToString(ids[k])
                  IN J(Len(ids))

VARIABLES pid, di, pj, k, stk, act, bad
vars == << pid, di, pj, k, stk, act, bad >>

Init == /\ pid \in 1..N
        /\ Cases[pid].obs.ok
        /\ di \in 1..Len(DetectorNames)
        /\ pj \in 0..Len(Paths(pid, di))
        /\ k = IF pj = 0 THEN 0 ELSE 1
        /\ stk = << >>
        /\ act = IF pj = 0 THEN << >> ELSE << { Paths(pid, di)[pj][1] } >>
        /\ bad = ""

(* consume the next block of the reported path *)
Next ==
    /\ pj > 0 /\ bad = "" /\ k < Len(Paths(pid, di)[pj])
    /\ LET P == Cases[pid].prog
           G == GR[pid]
           path == Paths(pid, di)[pj]
           a == path[k]
           b == path[k + 1]
           top == act[Len(act)]
           enter(st, ac) == /\ stk' = st
                            /\ IF b \in ac[Len(ac)] THEN bad' = "c02.revisit-within-activation" /\ act' = ac
                               ELSE bad' = "" /\ act' = [ac EXCEPT ![Len(ac)] = @ \cup {b}]
           fail(c) == bad' = c /\ stk' = stk /\ act' = act
       IN  /\ k' = k + 1
           /\ IF a \notin G.ids \/ b \notin G.ids THEN fail("c02.unknown-block")
              ELSE IF IsCallBlock(G, P, a)
              THEN IF b = G.subEntry[Callee(G, P, a)]
                   THEN bad' = "" /\ stk' = Append(stk, a) /\ act' = Append(act, {b})
                   ELSE fail("c02.call-edge")
              ELSE IF IsRetsubBlock(G, P, a)
              THEN IF stk # << >> /\ ReturnPoint(G, stk[Len(stk)]) = b
                   THEN enter(SubSeq(stk, 1, Len(stk) - 1), SubSeq(act, 1, Len(act) - 1))
                   ELSE fail("c02.return-edge")
              ELSE IF b \in SuccSet(G, a) THEN enter(stk, act)
              ELSE fail("c02.edge")
    /\ UNCHANGED << pid, di, pj >>

V(ok, clause, b, obs) == IF ok THEN << >> ELSE << [clause |-> clause, b |-> b, obs |-> ToJson(obs)] >>

(* clauses judged in the current state *)
Alarms ==
    LET c == Cases[pid]
        P == c.prog
        O == c.obs
        G == GR[pid]
        d == DetectorNames[di]
        ctxOf(b) == O.ctx[ToString(b)]
        has(b) == ToString(b) \in DOMAIN O.ctx
    IN
    IF pj = 0
    THEN (* verdict against the tool's own contexts *)
         LET fb == FunctionBlocks(G, P)
             good == TLCEval([b \in G.ids |-> b \in fb /\ has(b) /\ ~Excluded(d, ctxOf(b))])
             can == CanFinish(G, P, good)
             js == O.det[d].json
         IN  (IF HasRecursion(G, P) THEN << >>
              ELSE (IF d = "group-size-check" THEN << >>        \* reports only paths that use an absolute index
                    ELSE V(~can \/ Paths(pid, di) # << >>, "c01.search-complete", -1,
                           "a valid path of non-excluded blocks exists"))
                \o V(can \/ Paths(pid, di) = << >>, "c02.no-valid-path", -1, Paths(pid, di)))
          \o V(Len(js) = 1 /\ js[1].count = Len(Paths(pid, di)) /\ Len(js[1].paths) = Len(Paths(pid, di)),
               "c02.count", -1, << Len(Paths(pid, di)) >>)
    ELSE LET path == Paths(pid, di)[pj]
             last == path[Len(path)]
             jp == O.det[d].json[1].paths[pj]
             blockText(b) == LET fbk == O.fblocks[CHOOSE i \in 1..Len(O.fblocks) : O.fblocks[i].id = b]
                             IN [i \in 1..Len(fbk.lines) |-> ToString(fbk.lines[i]) \o ": " \o fbk.text[i]]
         IN  V(bad = "", bad, IF k <= Len(path) THEN path[k] ELSE -1, path)
          \o (IF k = 1
              THEN V(path[1] = 0, "c02.start-not-entry", path[1], path)
                \o V(\A i \in 1..Len(path) : has(path[i]) => ~Excluded(d, ctxOf(path[i])), "c02.excluded-block", -1, path)
                \o V(\A j \in 1..(pj - 1) : Paths(pid, di)[j] # path, "c02.duplicate-path", -1, path)
                \o V(jp.short = JoinArrow(path), "c02.short-notation", -1, jp.short)
                \o V(Len(jp.blocks) = Len(path)
                       /\ \A i \in 1..Len(path) :
                             (\E x \in 1..Len(O.fblocks) : O.fblocks[x].id = path[i]) => jp.blocks[i] = blockText(path[i]),
                     "c02.json-blocks", -1, jp.blocks)
              ELSE << >>)
          \o (IF k = Len(path) /\ bad = ""
              THEN V(last \in G.ids /\ IsLeaf(G, P, last), "c02.end-not-leaf", last, path)
              ELSE << >>)

ASSUME TLCSet(1, {})
Report ==
    LET as == Alarms IN
    /\ \A i \in 1..Len(as) :
          LET key == << pid, di, pj, as[i].clause >> IN
          key \in TLCGet(1) \/
          (TLCSet(1, TLCGet(1) \cup {key}) /\
           PrintT("@@W " \o ToJson([pid |-> Cases[pid].pid, clause |-> as[i].clause, det |-> DetectorNames[di],
                                   b |-> as[i].b, obs |-> as[i].obs, path |-> pj]) \o " W@@"))
    /\ (pj = 0 \/ k # Len(Paths(pid, di)[pj]) \/ bad # ""
          \/ PrintT("@@T " \o ToJson([pid |-> Cases[pid].pid, det |-> DetectorNames[di], path |-> pj,
                                     len |-> k, depth |-> Len(stk)]) \o " T@@"))
=============================================================================
