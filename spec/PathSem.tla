------------------------------ MODULE PathSem ------------------------------
(***************************************************************************)
(* The abstract semantics named in C03 / C06 / C08 / C09: a walk over the  *)
(* control-flow graph (Cfg!Graph) with a call stack, carrying ONE value v  *)
(* of ONE governed field F.  A comparison of F (read through `txn F`, or   *)
(* `global GroupSize`) with a constant is read exactly; every other        *)
(* condition may go either way; && || ! are truth-functional.  Conditions  *)
(* are evaluated inside one block: values entering a block from elsewhere  *)
(* (stack bottom, scratch space, other transactions) are unknown.          *)
(*                                                                         *)
(* Choosing "unknown = free" makes the set of feasible values the largest  *)
(* any reading of the properties allows, i.e. the exactness demand derived *)
(* from it the weakest one.                                                *)
(***************************************************************************)
EXTENDS Reps

UNK == << "?", 0 >>
K(n)  == << "k", n >>            \* known uint
KB(i) == << "kb", i >>           \* known byte string / address
IsK(x)  == x[1] = "k"
IsKB(x) == x[1] = "kb"
Known(x) == x[1] # "?"
KBool(c) == IF c THEN K(1) ELSE K(0)

(* abstract stack: the bottom is an unbounded supply of unknowns *)
Pad(stk, n) == IF Len(stk) >= n THEN stk ELSE [i \in 1..(n - Len(stk)) |-> UNK] \o stk
ATop(stk, k) == LET s == Pad(stk, k + 1) IN s[Len(s) - k]
APop(stk, n) == LET s == Pad(stk, n) IN SubSeq(s, 1, Len(s) - n)

GovernedUint == { "Fee", "TypeEnum", "OnCompletion", "ApplicationID", "GroupIndex" }
FieldRead(f, F, v) == IF f # F THEN UNK ELSE IF f \in AddrFieldNames THEN KB(v) ELSE K(v)

ACmp(op, a, b) ==
    IF ~Known(a) \/ ~Known(b) \/ a[1] # b[1] THEN UNK
    ELSE IF op \in {"==", "!="} THEN KBool(Cmp(op, a[2], b[2]))
    ELSE IF IsK(a) THEN KBool(Cmp(op, a[2], b[2])) ELSE UNK

AAnd(a, b) == IF (IsK(a) /\ a[2] = 0) \/ (IsK(b) /\ b[2] = 0) THEN K(0)
              ELSE IF IsK(a) /\ IsK(b) THEN K(1) ELSE UNK
AOr(a, b)  == IF (IsK(a) /\ a[2] # 0) \/ (IsK(b) /\ b[2] # 0) THEN K(1)
              ELSE IF IsK(a) /\ IsK(b) THEN K(0) ELSE UNK
ANot(a)    == IF IsK(a) THEN KBool(a[2] = 0) ELSE UNK

(* effect of one non-terminating instruction on [stk, alive] *)
AIns(i, S, F, v, st) ==
    LET stk == st.stk
        op  == i.op
        push(x) == [st EXCEPT !.stk = Append(stk, x)]
        rep(n, x) == [st EXCEPT !.stk = Append(APop(stk, n), x)]
    IN
    CASE op \in {"pragma", "label", "intcblock"} -> st
      [] op \in {"int", "pushint"} -> push(K(i.n))
      [] op \in {"intc", "intc_0", "intc_1", "intc_2", "intc_3"} ->
            LET k == CASE op = "intc" -> i.n [] op = "intc_0" -> 0 [] op = "intc_1" -> 1
                       [] op = "intc_2" -> 2 [] op = "intc_3" -> 3
            IN IF k < Len(S.intcs) THEN push(K(S.intcs[k + 1])) ELSE [st EXCEPT !.alive = FALSE]
      [] op = "addr" -> push(KB(AddrId(i.s)))
      [] op = "byte" -> push(KB(ByteId(i.s)))
      [] op = "global" ->
            push(CASE i.s = "ZeroAddress" -> KB(ZEROADDR) [] i.s = "CreatorAddress" -> KB(CREATOR)
                   [] i.s = "GroupSize" -> (IF F = "GroupSize" THEN K(v) ELSE UNK) [] OTHER -> UNK)
      [] op = "txn"   -> push(FieldRead(i.s, F, v))
      [] op = "gtxn"  -> push(UNK)
      [] op = "gtxns" -> rep(1, UNK)
      [] op \in {"==", "!=", "<", "<=", ">", ">="} -> rep(2, ACmp(op, ATop(stk, 1), ATop(stk, 0)))
      [] op = "&&" -> rep(2, AAnd(ATop(stk, 1), ATop(stk, 0)))
      [] op = "||" -> rep(2, AOr(ATop(stk, 1), ATop(stk, 0)))
      [] op = "!"  -> rep(1, ANot(ATop(stk, 0)))
      [] op \in {"+", "-"} -> rep(2, UNK)
      [] op = "dup"  -> push(ATop(stk, 0))
      [] op = "pop"  -> [st EXCEPT !.stk = APop(stk, 1)]
      [] op = "swap" -> [st EXCEPT !.stk = APop(stk, 2) \o << ATop(stk, 0), ATop(stk, 1) >>]
      [] op = "dig"  -> push(ATop(stk, i.n))
      [] op = "cover" ->
            LET s == Pad(stk, i.n + 1) IN
            [st EXCEPT !.stk = SubSeq(s, 1, Len(s) - i.n - 1) \o << s[Len(s)] >> \o SubSeq(s, Len(s) - i.n, Len(s) - 1)]
      [] op = "uncover" ->
            LET s == Pad(stk, i.n + 1) IN
            [st EXCEPT !.stk = SubSeq(s, 1, Len(s) - i.n - 1) \o SubSeq(s, Len(s) - i.n + 1, Len(s)) \o << s[Len(s) - i.n] >>]
      [] op = "select" -> rep(3, UNK)
      [] op = "load"   -> push(UNK)
      [] op = "store"  -> [st EXCEPT !.stk = APop(stk, 1)]
      [] op = "app_global_get" -> rep(1, UNK)
      [] op = "assert" ->
            LET a == ATop(stk, 0) IN
            IF IsK(a) /\ a[2] = 0 THEN [st EXCEPT !.alive = FALSE] ELSE [st EXCEPT !.stk = APop(stk, 1)]
      [] OTHER -> [st EXCEPT !.stk = << >>]          \* anything else: forget the stack

RECURSIVE ARun(_, _, _, _, _, _, _)
ARun(P, S, F, v, i, last, st) ==
    IF i > last \/ ~st.alive THEN st ELSE ARun(P, S, F, v, i + 1, last, AIns(P[i], S, F, v, st))

(* Abstract execution of block b for F = v.  Result: may the program be    *)
(* approved in this block, and the set of blocks control may move to       *)
(* ("ret" stands for: return from the current subroutine activation).      *)
BlockOutcome(P, S, F, v, b) ==
    LET G    == S.G
        e    == G.end[b]
        x    == P[e]
        isTerm == x.op \in {"return", "err", "b", "bz", "bnz", "switch", "match", "callsub", "retsub"}
        st   == ARun(P, S, F, v, G.start[b], IF isTerm THEN e - 1 ELSE e, [stk |-> << >>, alive |-> TRUE])
        top  == ATop(st.stk, 0)
        \* acc: approved by `return`; off: the walk runs off the end of the text here (approved only with exactly one
        \* value on the stack - decided in WalkSuccs, which knows the depth of the stack along the walk)
        none == [acc |-> FALSE, off |-> FALSE, next |-> {}, call |-> FALSE, ret |-> FALSE]
    IN
    IF ~st.alive THEN none
    ELSE CASE x.op = "return" -> [none EXCEPT !.acc = ~(IsK(top) /\ top[2] = 0)]
           [] x.op = "err"    -> none
           [] x.op = "b"      -> [none EXCEPT !.next = SeqToSet(G.succ[b])]
           [] x.op \in {"bz", "bnz"} ->
                 IF IsK(top)
                 THEN LET taken == IF x.op = "bnz" THEN top[2] # 0 ELSE top[2] = 0 IN
                      IF taken THEN [none EXCEPT !.next = { G.blockOf[S.target[e][1]] }]
                      ELSE IF e < Len(P) THEN [none EXCEPT !.next = { G.blockOf[e + 1] }]
                      ELSE [none EXCEPT !.off = TRUE]                 \* not taken, falls off the end
                 ELSE [none EXCEPT !.next = SeqToSet(G.succ[b]), !.off = (e = Len(P))]
           [] x.op \in {"switch", "match"} -> [none EXCEPT !.next = SeqToSet(G.succ[b]), !.off = (e = Len(P))]
           [] x.op = "callsub" -> [none EXCEPT !.call = TRUE]
           [] x.op = "retsub"  -> [none EXCEPT !.ret = TRUE]
           [] OTHER -> IF e = Len(P) THEN [none EXCEPT !.off = TRUE]      \* runs off the end of the text
                       ELSE [none EXCEPT !.next = SeqToSet(G.succ[b])]

(* net stack effect (pushes - pops) of an instruction of the fragment; UnknownEff for anything else *)
UnknownEff == 99
InsEff(i) ==
    CASE i.op \in {"pragma", "label", "intcblock", "b", "callsub", "retsub", "err", "gtxns", "!", "swap", "cover", "uncover",
                   "app_global_get"} -> 0
      [] i.op \in {"int", "pushint", "intc", "intc_0", "intc_1", "intc_2", "intc_3", "addr", "byte", "global", "txn", "gtxn",
                   "load", "dup", "dig"} -> 1
      [] i.op \in {"==", "!=", "<", "<=", ">", ">=", "&&", "||", "+", "-", "pop", "store", "assert", "bz", "bnz", "switch",
                   "return"} -> 0 - 1
      [] i.op = "select" -> 0 - 2
      [] i.op = "match" -> 0 - (Len(i.ls) + 1)
      [] OTHER -> UnknownEff
BlockEff(P, G, b) ==
    LET effs == { << k, InsEff(P[k]) >> : k \in G.start[b]..G.end[b] }
    IN IF \E x \in effs : x[2] = UnknownEff THEN UnknownEff
       ELSE LET RECURSIVE Sum(_)
                Sum(k) == IF k > G.end[b] THEN 0 ELSE InsEff(P[k]) + Sum(k + 1)
            IN Sum(G.start[b])
(* depth of the stack after block b when it was d before (-1: not known; also when it leaves 0..MaxDepth) *)
MaxDepth == 6
DepthAfter(P, G, b, d) ==
    LET e == BlockEff(P, G, b) IN
    IF d < 0 \/ e = UnknownEff \/ d + e < 0 \/ d + e > MaxDepth THEN 0 - 1 ELSE d + e
(* running off the end of the text approves iff exactly one (non-zero) value is left *)
OffOK(d) == d < 0 \/ d = 1

(* the governed fields of a program and the values to try for each *)
GovernedFields == { "Fee", "RekeyTo", "CloseRemainderTo", "AssetCloseTo", "Sender", "TypeEnum", "OnCompletion",
                    "ApplicationID", "GroupSize", "GroupIndex" }
(* the fields whose comparisons ExactWalk reads exactly for program P *)
ExploredFields(P) ==
    GovernedFields \cap (ReadsOwn(P) \cup (IF "GroupSize" \in ReadsGlobal(P) THEN {"GroupSize"} ELSE {}))
ValuesOf(P, F) ==
    CASE F = "GroupSize"     -> 1..16
      [] F = "GroupIndex"    -> 0..15
      [] F = "Fee"           -> FeeReps(P)
      [] F \in AddrFieldNames -> {ZEROADDR, 1, 2, CREATOR, ATTACKER}
      [] F = "TypeEnum"      -> 1..6
      [] F = "OnCompletion"  -> 0..5
      [] F = "ApplicationID" -> {0, 7}

(* walk state: [blk, frames (call-site blocks), visited, depth (of the stack on entry of blk, -1 unknown)]; Succs gives every successor state and
   whether the walk can be accepted in the current block.  mode "matched": retsub returns to the
   block after its own callsub; mode "merged": to the return point of any call site of the
   subroutine (what an analysis that does not distinguish call sites admits) *)
WalkSuccs(P, S, F, v, mode, w) ==
    LET G == S.G
        o == BlockOutcome(P, S, F, v, w.blk)
        dAfter == DepthAfter(P, G, w.blk, w.depth)
        go(t, fr) == [blk |-> t, frames |-> fr, visited |-> w.visited \cup {t}, depth |-> dAfter]
        callee == G.subEntry[Callee(G, P, w.blk)]
        region == IF w.blk \in G.mainBlocks THEN ""
                  ELSE CHOOSE nm \in G.subNames : w.blk \in G.subBlocks[nm]
        rp(c) == ReturnPoint(G, c)
    IN
    [ acc |-> \/ o.acc
              \/ (o.off /\ OffOK(dAfter))
              \* returning to a callsub that was the last instruction: the program ends there
              \/ (o.ret /\ OffOK(dAfter) /\ mode = "matched" /\ w.frames # << >> /\ rp(w.frames[Len(w.frames)]) = -1)
              \/ (o.ret /\ OffOK(dAfter) /\ mode = "merged" /\ region # ""
                        /\ \E c \in SeqToSet(Callers(G, P, region)) : rp(c) = -1),
      next |->
        { go(t, w.frames) : t \in o.next }
        \cup (IF o.call /\ Len(w.frames) < 4
              THEN { go(callee, IF mode = "matched" THEN Append(w.frames, w.blk) ELSE << >>) } ELSE {})
        \cup (IF o.ret /\ mode = "matched" /\ w.frames # << >> /\ rp(w.frames[Len(w.frames)]) # -1
              THEN { go(rp(w.frames[Len(w.frames)]), SubSeq(w.frames, 1, Len(w.frames) - 1)) } ELSE {})
        \cup (IF o.ret /\ mode = "merged" /\ region # ""
              THEN { go(rp(c), << >>) : c \in { d \in SeqToSet(Callers(G, P, region)) : rp(d) # -1 } } ELSE {}) ]
=============================================================================
