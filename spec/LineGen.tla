------------------------------ MODULE LineGen ------------------------------
(***************************************************************************)
(* The source-line domain of C11(a) / C16 / C19: every opcode of AvmTable  *)
(* with representatives of each immediate class.  A case is                *)
(*   [op, toks, canon, n, k, s]                                            *)
(*   toks   the immediates as WRITTEN (spelling under test)                *)
(*   canon  the immediates as the assembler understands them, in the       *)
(*          canonical spelling (decimal integers, 0x-hex byte strings)     *)
(*   n, k, s  first integer immediate / number of list elements / string   *)
(*          immediate, as AvmTable!Row wants them                          *)
(* Integer and byte-string spellings are class representatives written as  *)
(* (spelling, meaning) pairs - the one place where the specification       *)
(* states decode results as a table instead of computing them.             *)
(***************************************************************************)
EXTENDS AvmTable

(* <<written, canonical decimal, value>> *)
IntSpell == { << "0", "0", 0 >>, << "7", "7", 7 >>, << "010", "8", 8 >>, << "0x1f", "31", 31 >>,
              << "255", "255", 255 >>, << "0xff", "255", 255 >>, << "017", "15", 15 >>, << "3", "3", 3 >> }
SmallInt == { x \in IntSpell : x[3] <= 3 \/ x[1] = "7" }       \* for depths / counts, where 255 values would be silly
(* array indices of txna / gtxna / gtxnsa / itxna / gitxna go through a parser of their own (parse_transaction_field._parse_int): *)
(* they get the octal and hex spellings as well (seeded change C16-d read `010` there as ten)                                *)
IdxSpell == SmallInt \cup { x \in IntSpell : x[1] \in { "010", "017", "0x1f" } }

(* <<written tokens, canonical 0x-hex>> ; quoted strings keep their spelling *)
ByteSpell == { << << "0x010203" >>, "0x010203" >>,
               << << "base64", "AQID" >>, "0x010203" >>, << << "b64", "AQID" >>, "0x010203" >>,
               << << "base64(AQID)" >>, "0x010203" >>, << << "b64(AQID)" >>, "0x010203" >>,
               << << "base32", "AEBAG" >>, "0x010203" >>, << << "b32", "AEBAG" >>, "0x010203" >>,
               << << "base32(AEBAG)" >>, "0x010203" >>, << << "b32(AEBAG)" >>, "0x010203" >>,
               << << "base64", "/w==" >>, "0xff" >>, << << "b32(74======)" >>, "0xff" >>,
               << << "\"ab cd\"" >>, "\"ab cd\"" >>, << << "\"a//b\"" >>, "\"a//b\"" >>,
               << << "\"q\\\"r\"" >>, "\"q\\\"r\"" >>,
               \* backslash runs before a quote: "x\\\"y" (escaped backslash, escaped quote), the same with // and a blank
               \* inside, and "e\\" (the literal ends with an escaped backslash)
               << << "\"x\\\\\\\"y\"" >>, "\"x\\\\\\\"y\"" >>,
               << << "\"a\\\\\\\" // b\"" >>, "\"a\\\\\\\" // b\"" >>,
               << << "\"e\\\\\"" >>, "\"e\\\\\"" >> }
(* the literal that ends with an escaped backslash is only written as the LAST token of a line: the reference *)
(* assembler closes a literal at the first quote not preceded by a backslash, or at the end of the line      *)
EndEscaped(b) == b[2] = "\"e\\\\\""

TxnFields   == { "Sender", "Fee", "RekeyTo", "TypeEnum", "OnCompletion", "GroupIndex", "FirstValidTime", "LastLog",
                 "CreatedAssetID", "Nonparticipation", "ExtraProgramPages", "NumAssets", "StateProofPK" }
TxnArrays   == { "ApplicationArgs", "Accounts", "Assets", "Applications", "Logs", "ApprovalProgramPages" }
GlobalFields == DOMAIN GlobalFieldVer

NoImm == { "err", "sha256", "keccak256", "sha512_256", "ed25519verify", "ed25519verify_bare",
           "len", "itob", "btoi", "mulw", "addw", "divmodw", "divw", "intc_0", "intc_1", "intc_2", "intc_3",
           "bytec_0", "bytec_1", "bytec_2", "bytec_3", "arg_0", "arg_1", "arg_2", "arg_3", "args", "gloadss", "gaids",
           "loads", "stores", "return", "assert", "pop", "dup", "dup2", "swap", "select", "concat", "substring3",
           "getbit", "setbit", "getbyte", "setbyte", "extract3", "extract_uint16", "extract_uint32", "extract_uint64",
           "replace3", "balance", "min_balance", "app_opted_in", "app_local_get", "app_local_get_ex", "app_global_get",
           "app_global_get_ex", "app_local_put", "app_global_put", "app_local_del", "app_global_del", "retsub",
           "shl", "shr", "sqrt", "bitlen", "exp", "expw", "bsqrt", "sha3_256", "bzero", "log", "itxn_begin",
           "itxn_submit", "itxn_next", "box_create", "box_extract", "box_replace", "box_del", "box_len", "box_get",
           "box_put" } \cup DOMAIN Operators
OneInt   == { "intc", "bytec", "arg", "load", "store", "gloads", "gaid", "frame_dig", "frame_bury", "replace2", "pushint" }
OneSmall == { "dig", "cover", "uncover", "bury", "popn", "dupn" }
TwoInt   == { "gload", "substring", "extract", "proto" }
OneLabel == { "b", "bz", "bnz", "callsub" }

C(op, toks, canon, n, k, s) == [op |-> op, toks |-> toks, canon |-> canon, n |-> n, k |-> k, s |-> s]

LineCases ==
       { C(op, << >>, << >>, 0, 0, "") : op \in NoImm }
  \cup { C(op, << x[1] >>, << x[2] >>, x[3], 0, "") : op \in OneInt, x \in IntSpell }
  \cup { C(op, << x[1] >>, << x[2] >>, x[3], 0, "") : op \in OneSmall, x \in SmallInt }
  \cup { C(op, << x[1], "2" >>, << x[2], "2" >>, x[3], 0, "") : op \in TwoInt, x \in SmallInt }
  \cup { C(op, << "lab_1" >>, << "lab_1" >>, 0, 0, "") : op \in OneLabel }
  \cup { C("switch", << "la", "lb" >>, << "la", "lb" >>, 0, 2, ""), C("match", << "la", "lb", "lc" >>, << "la", "lb", "lc" >>, 0, 3, ""),
         C("switch", << "la" >>, << "la" >>, 0, 1, ""), C("match", << "la" >>, << "la" >>, 0, 1, ""),
         \* a label may be repeated: every immediate counts (match pops one value per label immediate)
         C("match", << "la", "la", "lb" >>, << "la", "la", "lb" >>, 0, 3, ""), C("switch", << "la", "lb", "la" >>, << "la", "lb", "la" >>, 0, 3, ""),
         C("match", << "la", "la" >>, << "la", "la" >>, 0, 2, "") }
  \cup { C("replace", << x[1] >>, << x[2] >>, x[3], 1, "") : x \in IntSpell } \cup { C("replace", << >>, << >>, 0, 0, "") }
  \cup { C("int", << x[1] >>, << x[2] >>, x[3], 0, "") : x \in IntSpell }
  \cup { C("int", << nm >>, << nm >>, 0, 0, "") : nm \in { "pay", "appl", "axfer", "NoOp", "UpdateApplication", "DeleteApplication" } }
  \cup { C("pushint", << nm >>, << nm >>, 0, 0, "") : nm \in { "pay", "OptIn" } }
  \cup { C(op, b[1], << b[2] >>, 0, 0, "") : op \in { "byte", "pushbytes" }, b \in ByteSpell }
  \cup { C("method", << "\"add(uint64,uint64)uint64\"" >>, << "\"add(uint64,uint64)uint64\"" >>, 0, 0, "") }
  \cup { C("addr", << "AEAQCAIBAEAQCAIBAEAQCAIBAEAQCAIBAEAQCAIBAEAQCAIBAEA5RCDXMI" >>,
           << "AEAQCAIBAEAQCAIBAEAQCAIBAEAQCAIBAEAQCAIBAEAQCAIBAEA5RCDXMI" >>, 0, 0, "") }
  \cup { C("intcblock", << x[1], "1", y[1] >>, << x[2], "1", y[2] >>, 0, 3, "") : x \in IntSpell, y \in { z \in IntSpell : z[3] = 8 \/ z[3] = 31 } }
  \cup { C("pushints", << x[1], "2" >>, << x[2], "2" >>, 0, 2, "") : x \in IntSpell }
  \cup { C("bytecblock", b[1] \o << "0x00" >>, << b[2], "0x00" >>, 0, 2, "") : b \in { x \in ByteSpell : ~EndEscaped(x) } }
  \cup { C("pushbytess", b[1] \o << "0x00" >>, << b[2], "0x00" >>, 0, 2, "") : b \in { x \in ByteSpell : ~EndEscaped(x) } }
  \cup { C(op, << "0x00" >> \o b[1], << "0x00", b[2] >>, 0, 2, "") : op \in { "bytecblock", "pushbytess" }, b \in ByteSpell }
  \cup { C(op, << f >>, << f >>, 0, 0, f) : op \in { "txn", "gtxns", "itxn", "itxn_field" }, f \in TxnFields }
  \cup { C(op, << f, x[1] >>, << f, x[2] >>, x[3], 0, f) : op \in { "txna", "gtxnsa", "itxna" }, f \in TxnArrays, x \in IdxSpell }
  \cup { C(op, << f >>, << f >>, 0, 0, f) : op \in { "txnas", "gtxnsas", "itxnas" }, f \in TxnArrays }
  \cup { C(op, << x[1], f >>, << x[2], f >>, x[3], 0, f) : op \in { "gtxn", "gitxn" }, f \in TxnFields, x \in SmallInt }
  \cup { C(op, << x[1], f, "1" >>, << x[2], f, "1" >>, x[3], 0, f) : op \in { "gtxna", "gitxna" }, f \in TxnArrays, x \in SmallInt }
  \cup { C(op, << "010", f, y[1] >>, << "8", f, y[2] >>, 8, 0, f) : op \in { "gtxna", "gitxna" }, f \in TxnArrays, y \in IdxSpell \ SmallInt }
  \cup { C(op, << x[1], f >>, << x[2], f >>, x[3], 0, f) : op \in { "gtxnas", "gitxnas" }, f \in TxnArrays, x \in SmallInt }
  \cup { C("global", << f >>, << f >>, 0, 0, f) : f \in GlobalFields }
  \cup { C("asset_holding_get", << f >>, << f >>, 0, 0, f) : f \in { "AssetBalance", "AssetFrozen" } }
  \cup { C("asset_params_get", << f >>, << f >>, 0, 0, f) : f \in { "AssetTotal", "AssetDecimals", "AssetManager", "AssetCreator" } }
  \cup { C("app_params_get", << f >>, << f >>, 0, 0, f) : f \in { "AppApprovalProgram", "AppCreator", "AppAddress" } }
  \cup { C("acct_params_get", << f >>, << f >>, 0, 0, f) : f \in { "AcctBalance", "AcctMinBalance", "AcctAuthAddr" } }
  \cup { C(op, << cv >>, << cv >>, 0, 0, cv) : op \in { "ecdsa_verify", "ecdsa_pk_decompress", "ecdsa_pk_recover" },
                                                cv \in { "Secp256k1", "Secp256r1" } }
  \cup { C("base64_decode", << e >>, << e >>, 0, 0, e) : e \in { "URLEncoding", "StdEncoding" } }
  \cup { C("json_ref", << e >>, << e >>, 0, 0, e) : e \in { "JSONString", "JSONUint64", "JSONObject" } }
  \cup { C("vrf_verify", << "VrfAlgorand" >>, << "VrfAlgorand" >>, 0, 0, "VrfAlgorand") }
  \cup { C("block", << f >>, << f >>, 0, 0, f) : f \in { "BlkSeed", "BlkTimestamp" } }

(* mnemonics that are NOT opcodes but have an opcode as a prefix: must stay unsupported, verbatim *)
NearMisses == { op \o "q" : op \in { o \in AllOps : o \notin { "b", "int", "byte", "addr", "method" } } }
              \cup { "dupx", "errr", "lens", "popn2x", "swapp", "assert1", "returnn", "b+x", "itobb" }

(* the field version the line needs, 1 when the op has no versioned field *)
FieldVer(c) ==
    IF c.op \in { "txn", "gtxn", "gtxns", "txna", "gtxna", "gtxnsa", "txnas", "gtxnas", "gtxnsas", "itxn", "itxna", "itxnas",
                  "gitxn", "gitxna", "gitxnas", "itxn_field" } /\ c.s \in DOMAIN TxnFieldVer
    THEN TxnFieldVer[c.s]
    ELSE IF c.op = "global" /\ c.s \in DOMAIN GlobalFieldVer THEN GlobalFieldVer[c.s]
    ELSE 1
=============================================================================
