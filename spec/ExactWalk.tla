----------------------------- MODULE ExactWalk -----------------------------
(***************************************************************************)
(* Phase 1 of the exactness checks (C03, C06, C08, C09): TLC explores every *)
(* walk of PathSem for every program, governed field and value, in both    *)
(* return-matching modes, and prints one fact per accepting walk:          *)
(*     [pid, f, v, mode, blocks visited]                                   *)
(* The pseudo-field "none" (no comparison is read exactly) yields the      *)
(* blocks that lie on some accepting walk at all.                          *)
(* In the same run the abstract walks are compared with the concrete       *)
(* machine nowhere - that is done by the consistency clause of ProgCheck's *)
(* sibling ConsistCheck; here the observation is used only for C06's       *)
(* "listed iff admitted" in the direction admitted => listed.              *)
(***************************************************************************)
EXTENDS PathSem, Json, IOUtils, TLC, SequencesExt

Data  == JsonDeserialize(IOEnv.OBS_FILE)
Cases == Data.cases
N     == Len(Cases)
Prog(p) == Cases[p].prog
ST      == [p \in 1..N |-> Static(Cases[p].prog)]
FieldsOf == [p \in 1..N |-> {"none"} \cup ExploredFields(Cases[p].prog)]
ValsOf == [p \in 1..N |-> [f \in FieldsOf[p] |-> IF f = "none" THEN {0} ELSE ValuesOf(Cases[p].prog, f)]]

VARIABLES pid, fld, val, mode, w, status
vars == << pid, fld, val, mode, w, status >>

Init == /\ pid \in 1..N
        /\ fld \in FieldsOf[pid]
        /\ val \in ValsOf[pid][fld]
        /\ mode \in {"matched", "merged"}
        /\ w = [blk |-> 0, frames |-> << >>, visited |-> {0}, depth |-> 0]
        /\ status = "run"

Next == /\ status = "run"
        /\ LET r == WalkSuccs(Prog(pid), ST[pid], fld, val, mode, w) IN
           \/ (w' \in r.next /\ status' = "run")
           \/ (r.acc /\ status' = "acc" /\ w' = w)
        /\ UNCHANGED << pid, fld, val, mode >>

ASSUME TLCSet(1, {})
Report ==
    status # "acc" \/
    LET key == << pid, fld, val, mode, w.visited >> IN
    key \in TLCGet(1) \/
    /\ TLCSet(1, TLCGet(1) \cup {key})
    /\ PrintT("@@F " \o ToJson([pid |-> Cases[pid].pid, f |-> fld, v |-> val, mode |-> mode,
                               bs |-> SortedSeq(w.visited)]) \o " F@@")
=============================================================================
