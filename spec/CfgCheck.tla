------------------------------ MODULE CfgCheck ------------------------------
(***************************************************************************)
(* Layer B for C04 (static part), C05 and the [B0] case of C12: the graph, *)
(* subroutine tables and function tables that the REAL tool built for each *)
(* generated program (bound in from OBS_FILE) are compared, field by field,*)
(* with Cfg!Graph of the same instruction list.                            *)
(*                                                                         *)
(* One TLC state per program; the state variable walks a binary tree over  *)
(* program numbers so the workers share the load.  Every violated clause   *)
(* prints one witness line; TLC keeps going so that one run classifies     *)
(* every program.                                                          *)
(***************************************************************************)
EXTENDS Cfg, Json, IOUtils, TLC

Data  == JsonDeserialize(IOEnv.OBS_FILE)
Cases == Data.cases
N     == Len(Cases)

V(ok, clause, b, obs, exp) ==
    IF ok THEN << >> ELSE << [clause |-> clause, b |-> b, obs |-> ToJson(obs), exp |-> ToJson(exp)] >>

ForEach(S, F(_)) == LET ss == SortedSeq(S) IN Cat([i \in 1..Len(ss) |-> F(ss[i])])

Field(recs, nm)   == [i \in 1..Len(recs) |-> recs[i][nm]]
ById(recs, id)    == recs[CHOOSE i \in 1..Len(recs) : recs[i].id = id]
ByName(recs, nm)  == recs[CHOOSE i \in 1..Len(recs) : recs[i].name = nm]
SortInts(sq)      == SortSeq(sq, <)

Violations(c) ==
    LET P == c.prog
        O == c.obs
        G == Graph(P)
        obsIds == SeqToSet(Field(O.bbs, "id"))
        common == obsIds \cap G.retained
        calls  == { b \in G.retained : IsCallBlock(G, P, b) }
        used   == UsedSubs(G, P)
        fblocks == FunctionBlocks(G, P)
        fIds   == IF O.ok THEN SeqToSet(Field(O.fblocks, "id")) ELSE {}
        region(b) == IF b \in G.mainBlocks THEN "__main__"
                     ELSE CHOOSE nm \in G.subNames : b \in G.subBlocks[nm]
    IN
    \* (a valid program the tool cannot even parse into a graph is C17's business; when only the ANALYSIS of the
    \* parsed program fails, the graph parse_teal() built is still judged)
    IF ~O.parsed THEN << >> ELSE
    (* ---- C04: blocks, membership, ordered successors, mirrored predecessors ---- *)
       V(obsIds = G.retained, "c04.retained", -1, SortedSeq(obsIds), SortedSeq(G.retained))
    \o V(Len(O.bbs) = Cardinality(obsIds), "c04.duplicate-block", -1, Field(O.bbs, "id"), "distinct ids")
    \o V(Field(O.bbs, "id") = SortedSeq(obsIds), "c04.block-order", -1, Field(O.bbs, "id"), "ascending ids")
    \o ForEach(common, LAMBDA b :
            LET ob == ById(O.bbs, b) IN
               V(ob.lines = BlockLines(G, b), "c04.lines", b, ob.lines, BlockLines(G, b))
            \o V(ob.next = G.succ[b], "c04.next", b, ob.next, G.succ[b])
            \o V(SortInts(ob.prev) = SortedSeq(PredSet(G, b)), "c04.prev", b, ob.prev, SortedSeq(PredSet(G, b)))
            \o V(SeqToSet(ob.next) \cup SeqToSet(ob.prev) \subseteq obsIds, "c04.dangling", b,
                 ob.next \o ob.prev, SortedSeq(obsIds)))
    \o V(Field(O.instrs, "line") = SortedSeq(UNION { SeqToSet(BlockLines(G, b)) : b \in G.retained }),
         "c04.instructions", -1, Field(O.instrs, "line"), "lines of retained blocks")
    (* ---- C05: subroutines, call sites, return points ---- *)
    \o V(SeqToSet(Field(O.subs, "name")) = G.subNames /\ Len(O.subs) = Cardinality(G.subNames),
         "c05.subroutines", -1, Field(O.subs, "name"), G.subNames)
    \o V(O.main.entry = 0 /\ O.main.blocks = SortedSeq(G.mainBlocks), "c05.main", -1, O.main.blocks,
         SortedSeq(G.mainBlocks))
    \o ForEach({ i \in 1..Len(O.subs) : O.subs[i].name \in G.subNames }, LAMBDA i :
            LET os == O.subs[i]
                nm == os.name
                S  == G.subBlocks[nm]
            IN V(os.entry = G.subEntry[nm], "c05.sub-entry", G.subEntry[nm], os.entry, G.subEntry[nm])
            \o V(os.blocks = SortedSeq(S), "c05.sub-blocks", G.subEntry[nm], os.blocks, SortedSeq(S))
            \o V(os.exits = SortedSeq(SubExits(G, P, S)), "c05.sub-exits", G.subEntry[nm], os.exits,
                 SortedSeq(SubExits(G, P, S)))
            \o V(os.retsubs = SortedSeq(SubRetsubs(G, P, S)), "c05.sub-retsubs", G.subEntry[nm], os.retsubs,
                 SortedSeq(SubRetsubs(G, P, S)))
            \o V(os.callers = Callers(G, P, nm), "c05.callers", G.subEntry[nm], os.callers, Callers(G, P, nm))
            \o V(os.retpts = RetPoints(G, P, nm), "c05.return-points", G.subEntry[nm], os.retpts,
                 RetPoints(G, P, nm)))
    \o ForEach(common, LAMBDA b :
            LET ob == ById(O.bbs, b) IN
            IF b \in calls
            THEN V(ob.iscall /\ ob.callee = Callee(G, P, b) /\ ob.retpt = ReturnPoint(G, b), "c05.call-site", b,
                   << ob.iscall, ob.callee, ob.retpt >>, << TRUE, Callee(G, P, b), ReturnPoint(G, b) >>)
            ELSE V(~ob.iscall, "c05.call-site", b, << ob.iscall >>, << FALSE >>))
    \o (IF Structured(G)
        THEN ForEach(common, LAMBDA b :
                V(ById(O.bbs, b).sub = region(b), "c05.membership", b, ById(O.bbs, b).sub, region(b)))
        ELSE << >>)
    (* ---- function built for dispatch path [B0]: same graph, shared subroutines (C12, C05 tables) ---- *)
    \o (IF ~O.ok THEN << >> ELSE
       V(fIds = fblocks /\ Len(O.fblocks) = Cardinality(fIds), "c12.blocks", -1, Field(O.fblocks, "id"),
         SortedSeq(fblocks))
    \o V(O.fentry = 0, "c12.entry", -1, O.fentry, 0)
    \o ForEach(fIds \cap fblocks, LAMBDA b :
            LET ob == ById(O.fblocks, b) IN
               V(ob.lines = BlockLines(G, b), "c12.lines", b, ob.lines, BlockLines(G, b))
            \o V(ob.next = G.succ[b], "c12.next", b, ob.next, G.succ[b])
            \o V(SortInts(ob.prev) = SortedSeq(PredSet(G, b) \cap fblocks), "c12.prev", b, ob.prev,
                 SortedSeq(PredSet(G, b) \cap fblocks))
            \o V(~ob.iserr, "c12.err-block", b, ob.iserr, FALSE)
            \o (IF b \in common THEN V(ob.text = ById(O.bbs, b).text, "c12.text", b, ob.text, ById(O.bbs, b).text)
                ELSE << >>))
    \o V(SeqToSet(Field(O.fsubs, "name")) = used, "c05.function-subroutines", -1, Field(O.fsubs, "name"),
         used)
    \o ForEach({ i \in 1..Len(O.fsubs) : O.fsubs[i].name \in used }, LAMBDA i :
            LET fs == O.fsubs[i]
                cs == { b \in fblocks : IsCallBlock(G, P, b) /\ Callee(G, P, b) = fs.name }
                rs == { ReturnPoint(G, b) : b \in { x \in cs : ReturnPoint(G, x) # -1 } }
            IN V(fs.callers = SortedSeq(cs), "c05.function-callers", G.subEntry[fs.name], fs.callers, SortedSeq(cs))
            \o V(SeqToSet(fs.retpts) = rs, "c05.function-return-points", G.subEntry[fs.name], fs.retpts,
                 SortedSeq(rs)))
    \o V(O.fleaf = SortedSeq({ b \in fblocks : IsLeaf(G, P, b) }), "c12.leaves", -1, O.fleaf,
         SortedSeq({ b \in fblocks : IsLeaf(G, P, b) })))

Stats(c) == LET G == Graph(c.prog) IN
    [blocks |-> G.nb, retained |-> Cardinality(G.retained), subs |-> Cardinality(G.subNames),
     dead |-> G.nb - Cardinality(G.retained), structured |-> Structured(G),
     calls |-> Cardinality({ b \in G.retained : IsCallBlock(G, c.prog, b) })]

VARIABLE p
Init == p = 1
Next == p' \in {2 * p, 2 * p + 1} /\ p' <= N
Report ==
    p > N \/
    LET c  == Cases[p]
        vs == Violations(c)
    IN  /\ \A i \in 1..Len(vs) :
               PrintT("@@W " \o ToJson([pid |-> c.pid, clause |-> vs[i].clause, b |-> vs[i].b,
                                       obs |-> vs[i].obs, exp |-> vs[i].exp]) \o " W@@")
        /\ PrintT("@@S " \o ToJson([pid |-> c.pid, ok |-> c.obs.ok, stats |-> Stats(c)]) \o " S@@")
=============================================================================
