----------------------------- MODULE SessionTrace -----------------------------
(***************************************************************************)
(* Trace validation for C14: every history replayed in a real process      *)
(* recorded, per action, a digest of the visible result (contexts as sets, *)
(* reported paths as ordered lists, JSON text).  A recorded trace is       *)
(* accepted iff it is a behaviour of Session with Result = Pure, where     *)
(* Pure[c] is the digest recorded by a fresh process that did nothing but  *)
(* analyse c.  All traces of a run are validated in one TLC invocation     *)
(* (variable tid); a trace that cannot be consumed to its end is reported  *)
(* with the position and the two digests.                                  *)
(***************************************************************************)
EXTENDS Session, Json, IOUtils, TLC

Data   == JsonDeserialize(IOEnv.OBS_FILE)
Traces == Data.traces            \* sequence of [tid, seed, events: <<[kind, c, o, digest]>>]
Pure   == Data.pure              \* sequence indexed by contract: digest

Result(c) == Pure[c]

VARIABLES tid, l
tvars == << tid, l, hist, seen, last, out >>

TInit == /\ tid \in 1..Len(Traces) /\ l = 1 /\ Init

IsEvent(kind) == l <= Len(Traces[tid].events) /\ Traces[tid].events[l].kind = kind /\ l' = l + 1
TAnalyse == /\ IsEvent("analyse")
            /\ LET e == Traces[tid].events[l] IN Analyse(e.c, e.o, Result) /\ out' = e.digest
TRerun   == /\ IsEvent("rerun")
            /\ LET e == Traces[tid].events[l] IN Rerun(Result) /\ out' = e.digest
TNext == (TAnalyse \/ TRerun) /\ UNCHANGED tid

(* a state from which the next recorded event cannot be taken: the trace is rejected here *)
Stuck == l <= Len(Traces[tid].events) /\ ~ENABLED TNext
Report ==
    /\ (~Stuck \/ LET e == Traces[tid].events[l] IN
          PrintT("@@W " \o ToJson([pid |-> Traces[tid].tid, clause |-> "c14.history", seed |-> Traces[tid].seed, step |-> l,
                                  kind |-> e.kind, c |-> e.c, obs |-> e.digest,
                                  exp |-> IF e.kind = "analyse" THEN Result(e.c) ELSE IF last # 0 THEN Result(last) ELSE "?"]) \o " W@@"))
    /\ (l # Len(Traces[tid].events) + 1
          \/ PrintT("@@T " \o ToJson([pid |-> Traces[tid].tid, len |-> l - 1]) \o " T@@"))
    /\ NoInterference(Result)
=============================================================================
