-------------------------------- MODULE CutGen --------------------------------
(* Dispatch paths for C12: every root-to-block prefix of the main graph, i.e. every *)
(* simple path from the entry block along successor edges (a callsub block        *)
(* continues at its return point), up to four blocks.                             *)
EXTENDS Cfg, Json, IOUtils, SequencesExt
Data  == JsonDeserialize(IOEnv.OBS_FILE)
Cases == Data.cases
N     == Len(Cases)

Extend(G, paths) == { Append(pp, t) : pp \in paths, t \in G.ids } \cap
                    { q \in UNION { { Append(pp, t) : t \in SeqToSet(G.succ[pp[Len(pp)]]) } : pp \in paths } :
                          \A i \in 1..(Len(q) - 1) : q[i] # q[Len(q)] }
Paths(G) ==
    LET p1 == { << 0 >> }
        ext(ps) == { q \in UNION { { Append(pp, t) : t \in SeqToSet(G.succ[pp[Len(pp)]]) } : pp \in ps } :
                       \A i \in 1..(Len(q) - 1) : q[i] # q[Len(q)] }
        p2 == ext(p1)
        p3 == ext(p2)
        p4 == ext(p3)
    IN p1 \cup p2 \cup p3 \cup p4

VARIABLE p
Init == p = 1
Next == p' \in {2 * p, 2 * p + 1} /\ p' <= N
QEmit == p > N \/
         LET ps == SetToSeq(Paths(Graph(Cases[p].prog))) IN
         \A i \in 1..Len(ps) : PrintT("@@Q " \o ToJson([pid |-> Cases[p].pid, path |-> ps[i]]) \o " Q@@")
=============================================================================
