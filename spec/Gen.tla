-------------------------------- MODULE Gen --------------------------------
(***************************************************************************)
(* Program generators: the quantifier domains of the properties, written   *)
(* down as TLA+ sets.  Every program the real tool is ever run on by the   *)
(* checks is a value computed here by TLC (binding direction spec -> code).*)
(*                                                                         *)
(* A generated case is [fam, k, desc, prog, sites] :                       *)
(*   desc   the descriptor (a record of small integers / strings)          *)
(*   prog   the instruction list (Teal.tla records)                        *)
(*   sites  for check families: one record per check site describing the   *)
(*          comparison that was placed (used only for reporting/features)  *)
(*                                                                         *)
(* Families                                                                *)
(*   layout  control skeletons with filler only (C04, C05, C17, C18, C20)  *)
(*   f1      one direct check placed in one hole of a skeleton             *)
(*   f2      two checks joined by && / || or placed in two holes           *)
(*   f3      group reads (gtxn / gtxns / GroupIndex +- k) with size/index  *)
(* Descriptors are decoded from digit vectors; a digit vector is either    *)
(* enumerated exhaustively (small sub-families, sentinels) or drawn by a   *)
(* three-stream Wichmann-Hill generator from (Seed, k), so a run is        *)
(* reproducible from VERIF_SEED alone.                                     *)
(***************************************************************************)
EXTENDS Teal, TLC, Prng

CONSTANTS Seed

-----------------------------------------------------------------------------
(* Pseudo-random digits: Prng.tla *)
Rnd(k, salt, i, r) == RndS(Seed, k, salt, i, r)

-----------------------------------------------------------------------------
(* Building blocks *)
FreeFields == << "FirstValid", "LastValid", "Amount", "AssetAmount" >>
(* a condition on a field no analysis tracks: both outcomes are possible   *)
FreeCond(j) == << Txn(FreeFields[1 + (j % 4)]), IntC(7), Op("<") >>
Filler      == << IntC(1), Op("pop") >>
Approve     == << IntC(1), Op("return") >>
AppPreamble == << Byte("k"), Op("app_global_get"), Op("pop") >>   \* makes the program an application

(* ---- field references ---- *)
\* ref = [kind, f, i]
ReadSeq(ref) ==
    CASE ref.kind = "txn"      -> << Txn(ref.f) >>
      [] ref.kind = "global"   -> << Global(ref.f) >>
      [] ref.kind = "gtxn"     -> << Gtxn(ref.i, ref.f) >>
      [] ref.kind = "gtxns"    -> << IntC(ref.i), Gtxns(ref.f) >>
      [] ref.kind = "self"     -> << Txn("GroupIndex"), Gtxns(ref.f) >>
      [] ref.kind = "relp"     -> << Txn("GroupIndex"), IntC(ref.i), Op("+"), Gtxns(ref.f) >>
      [] ref.kind = "relps"    -> << IntC(ref.i), Txn("GroupIndex"), Op("+"), Gtxns(ref.f) >>
      [] ref.kind = "relm"     -> << Txn("GroupIndex"), IntC(ref.i), Op("-"), Gtxns(ref.f) >>
      [] ref.kind = "relms"    -> << IntC(ref.i), Txn("GroupIndex"), Op("-"), Gtxns(ref.f) >>
      \* the index travels through a swap: Gtxn[ref.i] is read, the other swapped value (another constant /
      \* GroupIndex + 1) is a decoy that stays on the stack BELOW the value read (so the field is always the first
      \* operand of its comparison; programs end with `int 1; return`, which ignores what lies below)
      [] ref.kind = "swabs"    -> << IntC(ref.i), IntC((ref.i + 1) % 3), Op("swap"), Gtxns(ref.f) >>
      [] ref.kind = "swrel"    -> << IntC(ref.i), Txn("GroupIndex"), IntC(1), Op("+"), Op("swap"), Gtxns(ref.f) >>
      \* the absolute index 1 + ref.i computed from two constants
      [] ref.kind = "addc"     -> << IntC(1), IntC(ref.i), Op("+"), Gtxns(ref.f) >>

R(kind, f, i) == [kind |-> kind, f |-> f, i |-> i]

(* governed fields and the constants they are compared with *)
AddrFieldsG == << "RekeyTo", "CloseRemainderTo", "AssetCloseTo", "Sender" >>
ConstsOf(f) ==
    \* the first four are the ordinary ones; 5 and 6 are boundary values (0, beyond the range)
    CASE f = "Fee"           -> << IntC(0), IntC(1000), IntC(272000), IntC(272001), IntC(1), IntC(999999) >>
      [] f \in SeqToSet(AddrFieldsG)
                             -> << Global("ZeroAddress"), Addr("A1"), Addr("ZERO"), Global("CreatorAddress"),
                                   Addr("A2"), Addr("A1") >>
      [] f = "TypeEnum"      -> << NamedInt("pay"), IntC(4), NamedInt("appl"), IntC(2), IntC(0), IntC(7) >>
      [] f = "OnCompletion"  -> << NamedInt("UpdateApplication"), IntC(5), NamedInt("NoOp"), IntC(4), IntC(1), IntC(6) >>
      [] f = "ApplicationID" -> << IntC(0), IntC(7), IntC(0), IntC(0), IntC(0), IntC(7) >>
      [] f = "GroupSize"     -> << IntC(1), IntC(2), IntC(3), IntC(16), IntC(0), IntC(17) >>
      [] f = "GroupIndex"    -> << IntC(0), IntC(1), IntC(2), IntC(15), IntC(16), IntC(7) >>

CmpOps == << "==", "!=", "<", "<=", ">", ">=" >>
(* operators that are type-correct for the field *)
OpsOf(f) == IF f \in SeqToSet(AddrFieldsG) THEN << "==", "!=" >> ELSE CmpOps

Nots(n) == [i \in 1..n |-> Op("!")]

(* a comparison: cmp = [ref, op, side ("L": field left), c (1..4), neg (0..2)] *)
CondSeq(cmp) ==
    LET rd == ReadSeq(cmp.ref)
        cs == << ConstsOf(cmp.ref.f)[cmp.c] >>
    IN  IF cmp.op = "bare" THEN rd \o Nots(cmp.neg)      \* `txn ApplicationID` used as a condition
        ELSE (IF cmp.side = "L" THEN rd \o cs ELSE cs \o rd) \o << Op(cmp.op) >> \o Nots(cmp.neg)

(* consumers turn a condition (one value on the stack) into a stack-neutral  *)
(* statement that lets execution continue only on the stated outcome         *)
Consumers == << "assert", "bz_fail", "bnz_ok", "bz_ok", "bnz_next", "bz_ret0" >>
Consume(cond, cons, sfx, region) ==
    CASE cons = "assert"   -> cond \o << Op("assert") >>
      [] cons = "bz_fail"  -> cond \o << Bz("fail_" \o region) >>
      [] cons = "bnz_ok"   -> cond \o << Bnz("ok" \o sfx), Op("err"), Lab("ok" \o sfx) >>
      [] cons = "bz_ok"    -> cond \o << Bz("ok" \o sfx), Op("err"), Lab("ok" \o sfx) >>
      [] cons = "bnz_next" -> cond \o << Bnz("nx" \o sfx), Lab("nx" \o sfx) >>
      [] cons = "bz_ret0"  -> cond \o << Bnz("ok" \o sfx), IntC(0), Op("return"), Lab("ok" \o sfx) >>
FailTail(cons, region) == IF cons = "bz_fail" THEN << Lab("fail_" \o region), Op("err") >> ELSE << >>

-----------------------------------------------------------------------------
(* Skeletons.  K1 / K2 are statement sequences (already consumed checks), *)
(* T1/T2 the fail tails for the main region / subroutine regions.          *)
(* Each returns the program body after the pragma.                         *)
NSkel == 32
Skel(j, K1, K2, Tm, Ts) ==
    CASE j = 1  -> K1 \o Approve \o Tm                                            \* straight line
      [] j = 2  -> K1 \o FreeCond(1) \o << Bz("else") >> \o Filler \o << B("join"), Lab("else") >> \o Filler
                   \o << Lab("join") >> \o Approve \o Tm                           \* before a diamond
      [] j = 3  -> FreeCond(1) \o << Bz("else") >> \o K1 \o << B("join"), Lab("else") >> \o Filler
                   \o << Lab("join") >> \o Approve \o Tm                           \* one arm only
      [] j = 4  -> FreeCond(1) \o << Bz("else") >> \o K1 \o << B("join"), Lab("else") >> \o K2
                   \o << Lab("join") >> \o Approve \o Tm                           \* both arms
      [] j = 5  -> FreeCond(1) \o << Bz("else") >> \o Filler \o << B("join"), Lab("else") >> \o Filler
                   \o << Lab("join") >> \o K1 \o Approve \o Tm                     \* after the join
      [] j = 6  -> FreeCond(1) \o << Bz("cont") >> \o Approve \o << Lab("cont") >> \o K1 \o Approve \o Tm  \* early exit unchecked
      [] j = 7  -> K1 \o FreeCond(1) \o << Bz("cont") >> \o Approve \o << Lab("cont") >> \o Approve \o Tm  \* before early exit
      [] j = 8  -> << IntC(0), Store(0), Lab("head"), Load(0), IntC(2), Op("<"), Bz("exit") >> \o K1
                   \o << Load(0), IntC(1), Op("+"), Store(0), B("head"), Lab("exit") >> \o Approve \o Tm  \* loop body
      [] j = 9  -> << IntC(0), Store(0), Lab("head"), Load(0), IntC(2), Op("<"), Bz("exit") >> \o Filler
                   \o << Load(0), IntC(1), Op("+"), Store(0), B("head"), Lab("exit") >> \o K1 \o Approve \o Tm  \* loop exit
      [] j = 10 -> << Callsub("sa") >> \o Approve \o Tm \o << Lab("sa") >> \o K1 \o << Op("retsub") >> \o Ts   \* in callee
      [] j = 11 -> << Callsub("sa"), Callsub("sa") >> \o Approve \o Tm \o << Lab("sa") >> \o K1 \o << Op("retsub") >> \o Ts  \* shared callee
      [] j = 12 -> << Callsub("sa") >> \o Approve \o Tm \o << Lab("sa"), Callsub("sb"), Op("retsub"), Lab("sb") >>
                   \o K1 \o << Op("retsub") >> \o Ts                                \* nested callee
      [] j = 13 -> << Callsub("sa") >> \o K1 \o Approve \o Tm \o << Lab("sa") >> \o Filler \o << Op("retsub") >>  \* after a call
      [] j = 14 -> K1 \o << Callsub("sa") >> \o Approve \o Tm \o << Lab("sa") >> \o Filler \o << Op("retsub") >>  \* before a call
      [] j = 15 -> FreeCond(1) \o << Bnz("skip") >> \o K1 \o << Callsub("sa"), Lab("skip") >> \o Approve \o Tm
                   \o << Lab("sa") >> \o Filler \o << Op("retsub") >>               \* label right after callsub, also a jump target
      [] j = 16 -> << Callsub("sa") >> \o K1 \o Approve \o Tm \o << Lab("sa") >> \o FreeCond(2)
                   \o << Bz("sr") >> \o Approve \o << Lab("sr"), Op("retsub") >>    \* callee approves internally
      [] j = 17 -> << B("main"), Lab("sa") >> \o K1 \o << IntC(1), Op("retsub") >> \o Ts \o << Lab("main"), Callsub("sa") >>  \* callsub is the last instruction
      [] j = 18 -> << B("main"), Lab("sa") >> \o K1 \o << Op("retsub") >> \o Ts \o << Lab("main"), Callsub("sa") >> \o Approve \o Tm  \* subroutine before main
      [] j = 19 -> << Txn("FirstValid"), Switch(<< "swa", "swb", "swa" >>) >> \o K1 \o Approve \o << Lab("swa") >> \o K2 \o Approve
                   \o << Lab("swb") >> \o Approve \o Tm                             \* switch arms (one label named twice)
      [] j = 20 -> FreeCond(1) \o << Bz("p2") >> \o K1 \o << Callsub("sa") >> \o Approve \o << Lab("p2") >> \o K2
                   \o << Callsub("sa") >> \o Approve \o Tm \o << Lab("sa") >> \o Filler \o << Op("retsub") >>  \* two call sites, one check each
      [] j = 21 -> << Callsub("sa") >> \o Approve \o Tm \o << Lab("sa") >> \o FreeCond(2) \o << Bz("sr") >> \o K1
                   \o << Op("retsub"), Lab("sr") >> \o K2 \o << Op("retsub") >> \o Ts  \* callee with two retsubs
      [] j = 22 -> K1 \o FreeCond(1) \o << Bnz("fin") >> \o Approve \o Tm \o << Lab("fin") >>  \* label at the very end: falls off with empty stack
      [] j = 23 -> << Lab("head") >> \o K1 \o << Callsub("sa") >> \o FreeCond(1) \o << Bnz("head") >> \o Approve \o Tm
                   \o << Lab("sa") >> \o FreeCond(2) \o << Bz("sr") >> \o Approve \o << Lab("sr"), Op("retsub") >>
                                                                                  \* loop whose header block is a call site; callee may approve itself
      [] j = 24 -> << Lab("head") >> \o FreeCond(1) \o << Bz("exit"), Callsub("sa"), B("head"), Lab("exit") >> \o Approve \o Tm
                   \o << Lab("sa") >> \o K1 \o << Op("retsub") >> \o Ts           \* call inside a loop body
      [] j = 25 -> << Callsub("sa") >> \o Approve \o Tm \o << Lab("sa"), Lab("head") >> \o FreeCond(1) \o << Bz("out") >> \o K1
                   \o << B("head"), Lab("out"), Op("retsub") >> \o Ts               \* loop inside the callee
      [] j = 26 -> << Callsub("sa") >> \o Approve \o Tm \o << Lab("sa") >> \o FreeCond(1) \o << Bz("base"), Callsub("sa"), Lab("base") >>
                   \o K1 \o << Op("retsub") >> \o Ts                               \* recursive subroutine
      [] j = 27 -> << Callsub("sa") >> \o K1 \o Approve \o Tm \o << Lab("sa"), Callsub("sb"), Op("retsub"), Lab("sb") >>
                   \o FreeCond(2) \o << Bz("sr") >> \o Approve \o << Lab("sr"), Op("retsub") >>
                                                                                  \* nested callee approves internally, check after the outer call
      [] j = 28 -> << Callsub("sa") >> \o Approve \o Tm \o << Lab("sa"), Callsub("sb") >> \o K1 \o << Op("retsub"), Lab("sb") >>
                   \o FreeCond(2) \o << Bz("sr") >> \o Approve \o << Lab("sr"), Op("retsub") >> \o Ts
                                                                                  \* the same one level down: check after the inner call
      [] j = 29 -> << Callsub("sa") >> \o K1 \o Approve \o Tm
                   \o << Lab("sa"), Callsub("sb"), Op("retsub"), Lab("sb"), Callsub("sc"), Op("retsub"), Lab("sc") >>
                   \o FreeCond(2) \o << Bz("sr") >> \o Approve \o << Lab("sr"), Op("retsub") >>
                                                                                  \* three levels: the innermost callee approves internally
      [] j = 30 -> FreeCond(1) \o << Bnz("second"), Callsub("sa") >> \o K1 \o Approve \o << Lab("second"), Callsub("sa") >> \o Approve \o Tm
                   \o << Lab("sa"), Callsub("sb"), Op("retsub"), Lab("sb"), Op("retsub") >>
                                                                                  \* shared nested callee, two call sites: checked after the first, not after the second
      [] j = 31 -> << Callsub("sa") >> \o Approve \o Tm \o << Lab("sa") >> \o FreeCond(1) \o << Bz("skip") >> \o K1 \o << Op("retsub") >>
                   \o FreeCond(2) \o << Bnz("other"), Lab("skip") >> \o Filler \o FreeCond(3) \o << Bz("other") >> \o Filler
                   \o << Op("retsub"), Lab("other") >> \o Filler \o << Op("retsub") >> \o Ts
                                                                                  \* dead code inside the callee: an unreachable block with two live successors
      [] j = 32 -> << B("main"), Lab("up") >> \o Approve \o << Lab("main") >> \o K1
                                                                                  \* the condition feeds a `bnz up` that is the LAST instruction (K1 = condition; bnz up):
                                                                                  \* not taken, the program runs off the end with an empty stack and is rejected

SkelUsesSub(j) == j \in {10, 11, 12, 13, 14, 15, 16, 17, 18, 20, 21, 23, 24, 25, 26, 27, 28, 29, 30, 31}
SkelUsesK2(j)  == j \in {4, 19, 20, 21}
(* region in which hole 1 / hole 2 sits (for region-local fail labels)     *)
Hole1Region(j) == IF j \in {10, 11, 12, 17, 18, 21, 24, 25, 26, 28, 31} THEN "s" ELSE "m"
Hole2Region(j) == IF j = 21 THEN "s" ELSE "m"
MinVersion(j)  == IF j \in {19} THEN 8 ELSE IF SkelUsesSub(j) \/ j \in {8, 9} THEN 4 ELSE 3

-----------------------------------------------------------------------------
(* Family f1: one check (placed once or twice) in a skeleton *)
F1Refs == << R("txn", "Fee", 0), R("txn", "RekeyTo", 0), R("txn", "CloseRemainderTo", 0),
             R("txn", "AssetCloseTo", 0), R("txn", "Sender", 0), R("txn", "TypeEnum", 0),
             R("txn", "OnCompletion", 0), R("txn", "ApplicationID", 0),
             R("global", "GroupSize", 0), R("txn", "GroupIndex", 0) >>

MkCmp(ref, opi, side, c, neg) ==
    LET ops == OpsOf(ref.f) IN
    [ref |-> ref, op |-> ops[1 + (opi % Len(ops))], side |-> side, c |-> c, neg |-> neg]

Stmt(cmp, cons, sfx, region) == Consume(CondSeq(cmp), cons, sfx, region)

F1Case(fam, k, d) ==
    \* d: digit vector  <<ref, op, side, const, neg, consumer, skeleton, appmode, version>>
    LET ref  == F1Refs[1 + d[1]]
        cmp0 == MkCmp(ref, d[2], IF d[3] = 0 THEN "L" ELSE "R", 1 + d[4], d[5])
        cmp  == IF ref.f = "ApplicationID" /\ d[2] >= 4 THEN [cmp0 EXCEPT !.op = "bare"] ELSE cmp0
        cons == Consumers[1 + d[6]]
        j    == 1 + d[7]
        K1   == IF j = 32 THEN CondSeq(cmp) \o << Bnz("up") >> ELSE Stmt(cmp, cons, "a", Hole1Region(j))
        K2   == Stmt(cmp, cons, "b", Hole2Region(j))
        tm   == IF j = 32 THEN << >>
                ELSE IF Hole1Region(j) = "m" \/ (SkelUsesK2(j) /\ Hole2Region(j) = "m") THEN FailTail(cons, "m") ELSE << >>
        ts   == IF Hole1Region(j) = "s" \/ (SkelUsesK2(j) /\ Hole2Region(j) = "s") THEN FailTail(cons, "s") ELSE << >>
        app  == d[8] = 1 \/ (cmp.c = 4 /\ ref.f \in SeqToSet(AddrFieldsG))   \* CreatorAddress needs application mode
        ver  == MaxOf({MinVersion(j), 3 + d[9]})
        body == (IF app THEN AppPreamble ELSE << >>) \o Skel(j, K1, K2, tm, ts)
    IN  [fam |-> fam, k |-> k,
         desc |-> [ref |-> ref, op |-> cmp.op, side |-> cmp.side, c |-> cmp.c, neg |-> cmp.neg,
                   cons |-> IF j = 32 THEN "bnz_up" ELSE cons, skel |-> j, app |-> app, ver |-> ver],
         prog |-> << Pragma(ver) >> \o body]

F1Radix == << 10, 6, 2, 6, 3, 6, NSkel, 2, 6 >>
F1Random(k) == F1Case("f1", k, [i \in 1..Len(F1Radix) |-> Rnd(k, 1, i, F1Radix[i])])

(* sentinels: the shapes named in the properties, always part of a quick run:
   every field x every operator x both operand orders, asserted in a straight line;
   plus every skeleton with a RekeyTo == ZeroAddress and a Fee <= 1000 check *)
F1SentinelDigits ==
    { << f, o, s, 1, 0, 0, 0, 0, 3 >> : f \in 0..9, o \in 0..5, s \in 0..1 }
    \cup { << f, 0, 0, 0, 0, c, j, 0, 3 >> : f \in {0, 1}, c \in 0..5, j \in 0..(NSkel - 1) }
    \cup { << 0, 3, 0, 1, 0, c, j, 0, 3 >> : c \in {0}, j \in 0..(NSkel - 1) }
    \cup { << f, 0, s, 0, n, 0, 0, 0, 3 >> : f \in 5..7, s \in 0..1, n \in 0..2 }
    \cup { << 7, 4, 0, 0, n, c, 0, 0, 3 >> : n \in 0..2, c \in {0, 2, 3} }
    \* every field checked after a call whose (nested) callee may approve by itself: skeletons 16, 27, 28, 29
    \cup { << f, 0, 0, 0, 0, 0, j, 0, 3 >> : f \in 2..9, j \in {15, 26, 27, 28} }
    \* applications (approval programs) with one straight-line check of Sender / OnCompletion / ApplicationID
    \cup { << f, o, 0, c, 0, 0, 0, 1, 3 >> : f \in {4, 6, 7}, o \in {0, 1}, c \in {0, 1} }

-----------------------------------------------------------------------------
(* Family f2: two checks, joined in one block by && / || or placed in two holes *)
F2Joins == << "and", "or", "seq", "holes", "or_then", "implies", "and_lab", "or_lab", "and_lab2", "or_lab2" >>
F2Pairs == << << R("txn", "RekeyTo", 0), R("txn", "Fee", 0) >>,
              << R("txn", "TypeEnum", 0), R("txn", "CloseRemainderTo", 0) >>,
              << R("txn", "TypeEnum", 0), R("txn", "AssetCloseTo", 0) >>,
              << R("txn", "OnCompletion", 0), R("txn", "Sender", 0) >>,
              << R("txn", "ApplicationID", 0), R("txn", "OnCompletion", 0) >>,
              << R("txn", "Fee", 0), R("txn", "Fee", 0) >>,
              << R("global", "GroupSize", 0), R("txn", "GroupIndex", 0) >>,
              << R("global", "GroupSize", 0), R("global", "GroupSize", 0) >>,
              << R("txn", "OnCompletion", 0), R("txn", "OnCompletion", 0) >>,
              << R("txn", "RekeyTo", 0), R("txn", "RekeyTo", 0) >>,
              << R("txn", "TypeEnum", 0), R("txn", "OnCompletion", 0) >>,
              << R("txn", "GroupIndex", 0), R("txn", "GroupIndex", 0) >> >>

F2Case(fam, k, d) ==
    \* d: <<pair, op1, side1, c1, op2, side2, c2, join, neg, consumer, skeleton, app>>
    LET pr   == F2Pairs[1 + d[1]]
        cmpA == MkCmp(pr[1], d[2], IF d[3] = 0 THEN "L" ELSE "R", 1 + d[4], 0)
        cmpB == MkCmp(pr[2], d[5], IF d[6] = 0 THEN "L" ELSE "R", 1 + d[7], 0)
        join == F2Joins[1 + d[8]]
        cons == Consumers[1 + d[10]]
        j0   == 1 + d[11]
        \* two-hole skeletons for "holes", any skeleton otherwise
        j    == IF join = "holes" THEN << 4, 19, 20, 21 >>[1 + (j0 % 4)] ELSE j0
        r1   == Hole1Region(j)
        r2   == Hole2Region(j)
        both == CondSeq(cmpA) \o CondSeq(cmpB) \o << Op(IF join = "and" THEN "&&" ELSE "||") >> \o Nots(d[9])
        \* or_then: `A || B` asserted, then a free choice depending on A alone (both arms continue)
        orThen(sfx, r) == Consume(CondSeq(cmpA) \o CondSeq(cmpB) \o << Op("||") >>, "assert", sfx, r)
                          \o CondSeq(cmpA) \o << Bnz("ot" \o sfx) >> \o Filler \o << Lab("ot" \o sfx) >>
        \* implies: `if A then assert B` as a branch - the block before the branch constrains nothing, each arm one field
        implies(sfx, r) == CondSeq(cmpA) \o << Bnz("im" \o sfx), B("ia" \o sfx), Lab("im" \o sfx) >>
                           \o Consume(CondSeq(cmpB), "assert", sfx, r) \o << Lab("ia" \o sfx) >>
        \* *_lab: the first operand (lab2: both operands) is computed BEFORE a label, the connective after it - for an
        \* analysis that works block by block those operands are unknown values
        lab(sfx, two) == LET con == << Op(IF join \in {"and_lab", "and_lab2"} THEN "&&" ELSE "||") >> \o Nots(d[9]) IN
                         IF two THEN CondSeq(cmpA) \o CondSeq(cmpB) \o << Lab("lb" \o sfx) >> \o con
                         ELSE CondSeq(cmpA) \o << Lab("lb" \o sfx) >> \o CondSeq(cmpB) \o con
        K1   == CASE j = 32 -> both \o << Bnz("up") >>
                  [] join \in {"and", "or"} -> Consume(both, cons, "a", r1)
                  [] join \in {"and_lab", "or_lab"} -> Consume(lab("a", FALSE), cons, "a", r1)
                  [] join \in {"and_lab2", "or_lab2"} -> Consume(lab("a", TRUE), cons, "a", r1)
                  [] join = "seq"   -> Stmt(cmpA, cons, "a", r1) \o Stmt(cmpB, cons, "c", r1)
                  [] join = "holes" -> Stmt(cmpA, cons, "a", r1)
                  [] join = "or_then" -> orThen("a", r1)
                  [] join = "implies" -> implies("a", r1)
        K2   == CASE join \in {"and", "or"} -> Consume(both, cons, "b", r2)
                  [] join \in {"and_lab", "or_lab"} -> Consume(lab("b", FALSE), cons, "b", r2)
                  [] join \in {"and_lab2", "or_lab2"} -> Consume(lab("b", TRUE), cons, "b", r2)
                  [] join = "seq"   -> Stmt(cmpA, cons, "b", r2) \o Stmt(cmpB, cons, "d", r2)
                  [] join = "holes" -> Stmt(cmpB, cons, "b", r2)
                  [] join = "or_then" -> orThen("b", r2)
                  [] join = "implies" -> implies("b", r2)
        tm   == IF j = 32 THEN << >> ELSE IF r1 = "m" \/ (SkelUsesK2(j) /\ r2 = "m") THEN FailTail(cons, "m") ELSE << >>
        ts   == IF r1 = "s" \/ (SkelUsesK2(j) /\ r2 = "s") THEN FailTail(cons, "s") ELSE << >>
        app  == d[12] = 1
                \/ (cmpA.c = 4 /\ pr[1].f \in SeqToSet(AddrFieldsG))
                \/ (cmpB.c = 4 /\ pr[2].f \in SeqToSet(AddrFieldsG))
        ver  == MaxOf({MinVersion(j), 4})
        body == (IF app THEN AppPreamble ELSE << >>) \o Skel(j, K1, K2, tm, ts)
    IN  [fam |-> fam, k |-> k,
         desc |-> [pair |-> 1 + d[1], a |-> [op |-> cmpA.op, side |-> cmpA.side, c |-> cmpA.c],
                   b |-> [op |-> cmpB.op, side |-> cmpB.side, c |-> cmpB.c],
                   join |-> join, neg |-> d[9], cons |-> cons, skel |-> j, app |-> app, ver |-> ver],
         prog |-> << Pragma(ver) >> \o body]

F2Radix == << 12, 6, 2, 6, 6, 2, 6, 10, 2, 6, NSkel, 2 >>
F2Random(k) == F2Case("f2", k, [i \in 1..Len(F2Radix) |-> Rnd(k, 2, i, F2Radix[i])])
F2SentinelDigits ==
    { << p, 0, 0, 0, 0, 0, 0, jn, n, 0, 0, 0 >> : p \in 0..11, jn \in 0..2, n \in 0..1 }
    \cup { << p, 0, 0, 1, 0, 0, 3, 4, 0, 0, j, 0 >> : p \in {3, 8, 9, 11}, j \in {0, 1} }   \* or_then on one field, two literals
    \cup { << 5, 4, 0, 1, 3, 0, 2, jn, 0, 0, 0, 0 >> : jn \in 0..2 }   \* Fee > 1000 && Fee <= 272000
    \* implies (if OnCompletion == Update then Sender == A1, if TypeEnum == pay then CloseRemainderTo == zero, ...) in the
    \* straight line, after a call, and after the first of two call sites of a shared nested callee
    \cup { << p, 0, 0, 0, 0, 0, c2, 5, 0, 0, j, 0 >> : p \in {1, 2, 3}, c2 \in {0, 1}, j \in {0, 12, 29} }
    \* connectives whose operands come from another block, with every consumer (the false side continues for bz_ok / bnz_next)
    \cup { << p, 0, 0, 1, 0, 0, 1, jn, n, cons, 0, 0 >> : p \in {3, 6, 7, 10}, jn \in 6..9, n \in 0..1, cons \in 0..5 }

-----------------------------------------------------------------------------
(* Family f3: reads of other group members, with size / index checks *)
F3Fields == << "RekeyTo", "Fee", "TypeEnum", "CloseRemainderTo", "OnCompletion", "Sender", "AssetCloseTo" >>
F3Kinds  == << "gtxn", "gtxns", "self", "relp", "relps", "relm", "relms", "swabs", "swrel", "addc" >>
AbsKinds == {"gtxn", "gtxns", "swabs", "swrel", "addc"}
F3Idx(kind, d) == IF kind \in AbsKinds THEN << 0, 1, 2, 15 >>[1 + d] ELSE << 1, 2, 1, 2 >>[1 + d]
F3Guards == << "none", "size_eq", "size_le", "index_eq", "size_and_index", "index_ne" >>
GuardSeq(g, i) ==
    CASE g = "none"     -> << >>
      [] g = "size_eq"  -> << Global("GroupSize"), IntC(i + 2), Op("=="), Op("assert") >>
      [] g = "size_le"  -> << Global("GroupSize"), IntC(i + 2), Op("<="), Op("assert") >>
      [] g = "index_eq" -> << Txn("GroupIndex"), IntC(i), Op("=="), Op("assert") >>
      [] g = "size_and_index" -> << Global("GroupSize"), IntC(i + 2), Op("=="), Txn("GroupIndex"), IntC(i), Op("=="),
                                    Op("&&"), Op("assert") >>
      [] g = "index_ne" -> << Txn("GroupIndex"), IntC(i), Op("!="), Op("assert") >>

F3Case(fam, k, d) ==
    \* d: <<field, kind, idx, op, side, const, guard, consumer, skeleton, second, app>>
    LET f    == F3Fields[1 + d[1]]
        kind == F3Kinds[1 + d[2]]
        i    == F3Idx(kind, d[3])
        ref  == R(kind, f, i)
        cmp  == MkCmp(ref, d[4], IF d[5] = 0 \/ kind \in {"swabs", "swrel"} THEN "L" ELSE "R", 1 + d[6], 0)
        g    == F3Guards[1 + d[7]]
        \* (no second member for the kinds that already involve a decoy position: the input space would explode)
        second == d[10] = 1 /\ kind \notin {"swabs", "swrel", "addc"}
        cons == Consumers[1 + d[8]]
        j    == 1 + d[9]
        \* optionally a second read of another member, so that up to three members are involved
        ref2 == R("gtxn", f, (i + 1) % 3)
        cmp2 == MkCmp(ref2, d[4], "L", 1 + d[6], 0)
        r1   == Hole1Region(j)
        r2   == Hole2Region(j)
        K1   == IF j = 32 THEN GuardSeq(g, IF kind \in AbsKinds THEN i ELSE 1) \o CondSeq(cmp) \o << Bnz("up") >>
                ELSE GuardSeq(g, IF kind \in AbsKinds THEN i ELSE 1) \o Stmt(cmp, cons, "a", r1)
                     \o (IF second THEN Stmt(cmp2, cons, "c", r1) ELSE << >>)
        K2   == Stmt(cmp, cons, "b", r2)
        tm   == IF j = 32 THEN << >> ELSE IF r1 = "m" \/ (SkelUsesK2(j) /\ r2 = "m") THEN FailTail(cons, "m") ELSE << >>
        ts   == IF r1 = "s" \/ (SkelUsesK2(j) /\ r2 = "s") THEN FailTail(cons, "s") ELSE << >>
        app  == d[11] = 1 \/ (cmp.c = 4 /\ f \in SeqToSet(AddrFieldsG))
        ver  == MaxOf({MinVersion(j), 4})
        body == (IF app THEN AppPreamble ELSE << >>) \o Skel(j, K1, K2, tm, ts)
    IN  [fam |-> fam, k |-> k,
         desc |-> [ref |-> ref, op |-> cmp.op, side |-> cmp.side, c |-> cmp.c, guard |-> g, second |-> IF second THEN 1 ELSE 0,
                   cons |-> cons, skel |-> j, app |-> app, ver |-> ver],
         prog |-> << Pragma(ver) >> \o body]

F3Radix == << 7, 10, 4, 6, 2, 6, 6, 6, NSkel, 2, 2 >>
F3Random(k) == F3Case("f3", k, [i \in 1..Len(F3Radix) |-> Rnd(k, 3, i, F3Radix[i])])
F3SentinelDigits ==
    { << f, kd, ix, 0, 0, 0, g, 0, 0, 0, 0 >> : f \in 0..2, kd \in 0..9, ix \in 0..1, g \in 0..5 }
    \cup { << 1, kd, 0, 3, s, 1, g, 0, 0, 0, 0 >> : kd \in 0..9, s \in 0..1, g \in {0, 4} }
    \* another member's RekeyTo checked after a call whose callee may approve by itself (skeleton 16): not every
    \* accepting exit of such a checker has seen the check
    \cup { << 0, kd, 1, 0, 0, 0, 0, 0, 15, 0, 0 >> : kd \in {0, 3} }
    \* an application that checks another member's OnCompletion / Sender
    \cup { << f, kd, 0, 0, 0, 0, 0, 0, 0, 0, 1 >> : f \in {4, 5}, kd \in 0..1 }
    \* absolute-index reads only inside a loop body / only in a callee (group-size-check)
    \cup { << 0, kd, 0, 0, 0, 0, 0, 0, j, 0, 0 >> : kd \in 0..1, j \in {7, 8, 9, 10, 16} }

-----------------------------------------------------------------------------
(* Family layout: control skeletons with filler only.  A program is a main  *)
(* region of NMain slots followed (or preceded) by two subroutine regions   *)
(* of two slots each; every slot carries a label and a body drawn from a    *)
(* small alphabet whose branch targets are slots of the same region.        *)
NMain == 4
SlotLab(r, i) == r \o "_" \o ToString(i)
MainKinds == << "filler", "empty", "bz", "bnz", "b", "call1", "call2", "ret", "err", "switch", "match", "check" >>
SlotBody(r, n, i, kind, t) ==
    \* r region name, n slots in the region, i this slot, t target digit
    LET tgt  == SlotLab(r, 1 + (t % n))
        tgt2 == SlotLab(r, 1 + ((t + 1) % n))
    IN CASE kind = "filler" -> Filler
         [] kind = "empty"  -> << >>
         [] kind = "bz"     -> FreeCond(i) \o << Bz(tgt) >>
         [] kind = "bnz"    -> FreeCond(i) \o << Bnz(tgt) >>
         [] kind = "b"      -> << B(tgt) >>
         [] kind = "call1"  -> << Callsub("s1_1") >>
         [] kind = "call2"  -> << Callsub("s2_1") >>
         [] kind = "ret"    -> Approve
         [] kind = "err"    -> << Op("err") >>
         [] kind = "switch" -> << Txn(FreeFields[1 + (i % 4)]), Switch(<< tgt, tgt2 >>) >>
         [] kind = "match"  -> << IntC(1), Txn(FreeFields[1 + (i % 4)]), Match(<< tgt >>) >>
         [] kind = "check"  -> << Txn("Fee"), IntC(1000), Op("<="), Op("assert") >>
         [] kind = "retsub" -> << Op("retsub") >>
         [] kind = "off"    -> << IntC(1) >>            \* falls off the end with one value

Region(r, n, kinds, tgts) ==
    Cat([i \in 1..n |-> << Lab(SlotLab(r, i)) >> \o SlotBody(r, n, i, kinds[i], tgts[i])])

MainFinalKinds == << "ret", "err", "b", "bz", "call1", "off", "bnz", "call2" >>
SubFinalKinds  == << "retsub", "ret", "err", "b" >>
SubKinds       == << "filler", "empty", "bz", "bnz", "b", "call2", "ret", "err", "switch", "retsub", "check", "call1" >>

LayoutCase(fam, k, d) ==
    \* d: << (kind,tgt) x 3 main slots, (final kind, tgt), sub1: (kind,tgt),(final,tgt), sub2: ..., placement, nmain >>
    LET nm    == 1 + (d[18] % NMain)
        mk    == [i \in 1..nm |-> IF i = nm THEN MainFinalKinds[1 + d[7]] ELSE MainKinds[1 + d[2 * i - 1]]]
        mt    == [i \in 1..nm |-> IF i = nm THEN d[8] ELSE d[2 * i]]
        \* "off" is only allowed when the main region is the last thing in the text
        place == d[17]       \* 0: subs after main, 1: subs before main (entered by `b m_1`), 2: no subs in text
        \* a main region followed by subroutine text must not run into it: its last slot
        \* then ends in return / err / b.  Without subroutines in the text there is nothing to call.
        mk2   == [i \in 1..nm |-> IF i = nm /\ place = 0 /\ mk[i] \notin {"ret", "err", "b"} THEN "ret"
                                   ELSE IF place = 2 /\ mk[i] \in {"call1", "call2"} THEN "filler"
                                   ELSE mk[i]]
        \* in sub 2, a call to sub 2 is recursion; a call from sub 1 to sub 2 is nesting
        s1k   == << SubKinds[1 + d[9]], SubFinalKinds[1 + d[11]] >>
        s1t   == << d[10], d[12] >>
        s2k   == << SubKinds[1 + d[13]], SubFinalKinds[1 + d[15]] >>
        s2t   == << d[14], d[16] >>
        main  == Region("m", nm, mk2, mt)
        sub1  == Region("s1", 2, s1k, s1t)
        sub2  == Region("s2", 2, s2k, s2t)
        body  == CASE place = 0 -> main \o sub1 \o sub2
                   [] place = 1 -> << B("m_1") >> \o sub1 \o sub2 \o main
                   [] place = 2 -> main
    IN  [fam |-> fam, k |-> k,
         desc |-> [main |-> mk2, mt |-> mt, s1 |-> s1k, s2 |-> s2k, place |-> place],
         prog |-> << Pragma(8) >> \o body]

LayoutRadix == << 12, 4, 12, 4, 12, 4, 8, 4, 12, 2, 4, 2, 12, 2, 4, 2, 3, 4 >>
LayoutRandom(k) == LayoutCase("layout", k, [i \in 1..Len(LayoutRadix) |-> Rnd(k, 4, i, LayoutRadix[i])])
(* exhaustive small sub-family: two main slots, all kinds and targets, both placements *)
LayoutSmallDigits ==
    { << a, t, 0, 0, 0, 0, f, u, s, 0, g, 0, 0, 0, 0, 0, p, 1 >> :
        a \in 0..11, t \in 0..1, f \in 0..7, u \in 0..1, s \in {0, 2, 5, 9}, g \in {0, 1}, p \in 0..1 }

-----------------------------------------------------------------------------
(* What a run emits: CONSTANTS choose the family and the amount.  Case k is  *)
(* the k-th random case for k <= NRandom and the (k - NRandom)-th sentinel   *)
(* after that.                                                               *)
CONSTANTS Family, NRandom, WithSentinels

SentinelDigits ==
    CASE Family = "f1" -> F1SentinelDigits
      [] Family = "f2" -> F2SentinelDigits
      [] Family = "f3" -> F3SentinelDigits
      [] Family = "layout" -> LayoutSmallDigits
RandomCase(k) ==
    CASE Family = "f1" -> F1Random(k)
      [] Family = "f2" -> F2Random(k)
      [] Family = "f3" -> F3Random(k)
      [] Family = "layout" -> LayoutRandom(k)
SentinelCase(d) ==
    CASE Family = "f1" -> F1Case("f1s", 0, d)
      [] Family = "f2" -> F2Case("f2s", 0, d)
      [] Family = "f3" -> F3Case("f3s", 0, d)
      [] Family = "layout" -> LayoutCase("layouts", 0, d)
=============================================================================
