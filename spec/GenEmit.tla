------------------------------ MODULE GenEmit ------------------------------
(* Emits the generated cases of Gen.tla as newline-delimited JSON.  The only *)
(* state variable walks a binary tree over case numbers so that TLC's workers *)
(* share the work; the "invariant" writes one line per case and is always     *)
(* true.                                                                      *)
EXTENDS Gen, Json, SequencesExt

SentinelSeq == IF WithSentinels THEN SetToSeq(SentinelDigits) ELSE << >>
Total       == NRandom + Len(SentinelSeq)
CaseAt(k)   == IF k <= NRandom THEN RandomCase(k) ELSE SentinelCase(SentinelSeq[k - NRandom])

VARIABLE k
Init == k = 1
Next == /\ k' \in {2 * k, 2 * k + 1}
        /\ k' <= Total
Emit == k > Total \/ PrintT("@@P " \o ToJson(CaseAt(k)) \o " P@@")
=============================================================================
