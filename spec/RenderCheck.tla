----------------------------- MODULE RenderCheck -----------------------------
(***************************************************************************)
(* C17 and C18.  Input per program: the observation of the real tool       *)
(* (graph, contexts) and the record of running EVERY subcommand / printer  *)
(* through the tool's own main(): exit status, exception, and the exported *)
(* DOT / JSON files parsed into nodes, edges, colours, annotations.        *)
(*   C17  every command finishes: exit status 0, no exception              *)
(*   C18  the exports denote the internal results: what the DOT files and  *)
(*        the JSON envelope must contain is defined here from Cfg!Graph    *)
(*        and from the tool's own recorded contexts and paths              *)
(* One TLC state per program.                                              *)
(***************************************************************************)
EXTENDS Cfg, Json, IOUtils, SequencesExt

Data  == JsonDeserialize(IOEnv.OBS_FILE)
Cases == Data.cases
N     == Len(Cases)

V(ok, clause, det, b, obs, exp) ==
    IF ok THEN << >> ELSE << [clause |-> clause, det |-> det, b |-> b, obs |-> ToJson(obs), exp |-> ToJson(exp)] >>
ForEach(S, F(_)) == LET ss == SortedSeq(S) IN Cat([i \in 1..Len(ss) |-> F(ss[i])])
Pairs(sq) == { << sq[i][1], sq[i][2] >> : i \in 1..Len(sq) }

(* ---- what the exports must show ---- *)
(* global graph: branch/fall-through edges, callsub -> callee entry, retsub -> every matching
   return point; no edge from a callsub block to its return point *)
GlobalEdges(G, P) ==
    UNION { IF IsCallBlock(G, P, b)
            THEN { << b, G.subEntry[Callee(G, P, b)] >> }
                 \cup (IF ReturnPoint(G, b) = -1 THEN {}
                       ELSE { << r, ReturnPoint(G, b) >> : r \in SubRetsubs(G, P, G.subBlocks[Callee(G, P, b)]) })
            ELSE { << b, t >> : t \in SuccSet(G, b) }
          : b \in G.retained }
(* a call box is encoded as the negative number -(1 + call-site block id) *)
Box(c) == 0 - (1 + c)
RegionEdges(G, P, R) ==
    UNION { IF IsCallBlock(G, P, b)
            THEN { << b, Box(b) >> } \cup (IF ReturnPoint(G, b) = -1 THEN {} ELSE { << Box(b), ReturnPoint(G, b) >> })
            ELSE { << b, t >> : t \in SuccSet(G, b) }
          : b \in R }

(* "1 2 3 5..9 11" : runs of four or more consecutive numbers are abbreviated *)
ReprNums(S) ==
    LET ss == SortedSeq(S)
        n  == Len(ss)
        startsRun(i) == i = 1 \/ ss[i - 1] # ss[i] - 1
        runEnd(i) == CHOOSE j \in i..n : (\A k \in i..(j - 1) : ss[k + 1] = ss[k] + 1) /\ (j = n \/ ss[j + 1] # ss[j] + 1)
        RECURSIVE Join(_)
        Join(i) == IF i > n THEN ""
                   ELSE LET j == runEnd(i)
                            piece == IF j - i + 1 >= 4 THEN ToString(ss[i]) \o ".." \o ToString(ss[j])
                                     ELSE LET RECURSIVE Sp(_)
                                              Sp(k) == IF k = j THEN ToString(ss[k]) ELSE ToString(ss[k]) \o " " \o Sp(k + 1)
                                          IN Sp(i)
                        IN IF j = n THEN piece ELSE piece \o " " \o Join(j + 1)
    IN Join(1)

FilterPatterns == << "-> 2$", "^0 -> 1 ->" >>
Matches(pat, path) ==
    CASE pat = "-> 2$"      -> Len(path) >= 2 /\ path[Len(path)] = 2
      [] pat = "^0 -> 1 ->" -> Len(path) >= 3 /\ path[1] = 0 /\ path[2] = 1

Violations(c) ==
    LET P == c.prog
        O == c.obs
        X == c.cli
        G == Graph(P)
        fb == FunctionBlocks(G, P)
        full == X.dot.full
        nodeIds(d) == { d.nodes[i].id : i \in 1..Len(d.nodes) }
        node(d, b) == d.nodes[CHOOSE i \in 1..Len(d.nodes) : d.nodes[i].id = b]
        regions == [nm \in G.subNames \cup {"__main__"} |-> IF nm = "__main__" THEN G.mainBlocks ELSE G.subBlocks[nm]]
        jsonPaths(d) == LET hit == { i \in 1..Len(X.json.result) : X.json.result[i].check = d }
                        IN IF hit = {} THEN << >> ELSE X.json.result[CHOOSE i \in hit : TRUE].paths
        allOk == \A i \in 1..Len(X.cli) : X.cli[i].exit = 0 /\ X.cli[i].exc = ""
    IN
    (* ---- C17 ---- *)
    (IF ~O.ok THEN V(FALSE, "c17.analysis", "", -1, O.exc, "analysis completes") ELSE << >>)
    \o Cat([i \in 1..Len(X.cli) |->
              V(X.cli[i].exit = 0 /\ X.cli[i].exc = "", "c17.command", X.cli[i].name, -1,
                << X.cli[i].exit, X.cli[i].exc >>, << 0, "" >>)])
    (* ---- C18 (only meaningful when the commands completed) ---- *)
    \o (IF ~O.ok \/ ~allOk THEN << >> ELSE
          V(nodeIds(full) = G.retained /\ Len(full.nodes) = Cardinality(G.retained), "c18.cfg.nodes", "", -1,
            SortedSeq(nodeIds(full)), SortedSeq(G.retained))
       \o ForEach(nodeIds(full) \cap G.retained, LAMBDA b :
            V(node(full, b).lines = BlockLines(G, b), "c18.cfg.instructions", "", b, node(full, b).lines, BlockLines(G, b)))
       \o V(Pairs(full.edges) = GlobalEdges(G, P), "c18.cfg.edges", "", -1, full.edges, GlobalEdges(G, P))
       \o V(full.boxes = << >>, "c18.cfg.boxes", "", -1, full.boxes, << >>)
       (* subroutine files *)
       \o V({ X.dot.subs[i].name : i \in 1..Len(X.dot.subs) } = DOMAIN regions /\ Len(X.dot.subs) = Cardinality(DOMAIN regions),
            "c18.sub.files", "", -1, { X.dot.subs[i].name : i \in 1..Len(X.dot.subs) }, DOMAIN regions)
       \o Cat([i \in 1..Len(X.dot.subs) |->
                 LET sd == X.dot.subs[i] IN
                 IF sd.name \notin DOMAIN regions THEN << >>
                 ELSE LET R == regions[sd.name]
                          calls == { b \in R : IsCallBlock(G, P, b) }
                      IN V(nodeIds(sd.dot) = R, "c18.sub.nodes", sd.name, -1, SortedSeq(nodeIds(sd.dot)), SortedSeq(R))
                      \o V(Pairs(sd.dot.edges) = RegionEdges(G, P, R), "c18.sub.edges", sd.name, -1, sd.dot.edges,
                           RegionEdges(G, P, R))
                      \o V({ << sd.dot.boxes[k][1], sd.dot.boxes[k][2] >> : k \in 1..Len(sd.dot.boxes) }
                             = { << Box(b), Callee(G, P, b) >> : b \in calls } /\ Len(sd.dot.boxes) = Cardinality(calls),
                           "c18.sub.call-boxes", sd.name, -1, sd.dot.boxes, { << Box(b), Callee(G, P, b) >> : b \in calls })])
       (* call graph *)
       \o (IF O.version >= 4
           THEN V(Pairs(X.dot.callgraph) = CallGraph(G, P), "c18.call-graph", "", -1, X.dot.callgraph, CallGraph(G, P))
           ELSE << >>)
       (* JSON envelope *)
       \o V(X.json.success /\ X.json.error = "", "c18.json.success", "", -1, << X.json.success, X.json.error >>, << TRUE, "" >>)
       \o Cat([i \in 1..Len(X.json.result) |->
                 LET r == X.json.result[i] IN
                 V(r.count = Len(r.paths), "c18.json.count", r.check, -1, r.count, Len(r.paths))
              \o V(r.check \notin DOMAIN O.det \/ r.paths = O.det[r.check].paths, "c18.json.paths", r.check, -1, r.paths,
                   IF r.check \in DOMAIN O.det THEN O.det[r.check].paths ELSE << >>)
              \* "blocks" of a path: the instructions of every block of the path, in path order (a block visited twice is
              \* listed twice)
              \o Cat([j \in 1..Len(r.paths) |->
                        LET want == [k \in 1..Len(r.paths[j]) |->
                                       IF r.paths[j][k] \in G.retained THEN BlockLines(G, r.paths[j][k]) ELSE << >>]
                        IN V(j <= Len(r.blines) /\ r.blines[j] = want, "c18.json.blocks", r.check, j,
                             IF j <= Len(r.blines) THEN r.blines[j] ELSE "missing", want)])])
       (* path files: exactly the path's blocks are marked *)
       \o Cat([i \in 1..Len(X.dot.paths) |->
                 LET pd == X.dot.paths[i]
                     ps == jsonPaths(pd.check)
                 IN V(Len(pd.reds) = Len(ps), "c18.path-files", pd.check, -1, Len(pd.reds), Len(ps))
                 \o (IF Len(pd.reds) # Len(ps) THEN << >>
                     ELSE Cat([j \in 1..Len(ps) |->
                            V(SeqToSet(pd.reds[j]) = SeqToSet(ps[j]), "c18.path-highlight", pd.check, j, pd.reds[j],
                              SortedSeq(SeqToSet(ps[j])))]))])
       \o Cat([i \in 1..Len(X.json.result) |->
                 LET r == X.json.result[i] IN
                 V(r.paths = << >> \/ \E k \in 1..Len(X.dot.paths) : X.dot.paths[k].check = r.check,
                   "c18.path-files-missing", r.check, -1, "no file", Len(r.paths))])
       (* context annotations *)
       \o ForEach({ b \in fb : ToString(b) \in DOMAIN O.ctx /\ \E k \in 1..Len(X.dot.txnctx) : X.dot.txnctx[k].id = b },
                  LAMBDA b :
            LET cm == X.dot.txnctx[CHOOSE k \in 1..Len(X.dot.txnctx) : X.dot.txnctx[k].id = b].comments
                cx == O.ctx[ToString(b)]
                \* (the tool strips the comment, so an empty list leaves no trailing blank)
                wantI == IF cx.indices = << >> THEN "GroupIndex:" ELSE "GroupIndex: " \o ReprNums(SeqToSet(cx.indices))
                wantS == IF cx.sizes = << >> THEN "GroupSize:" ELSE "GroupSize: " \o ReprNums(SeqToSet(cx.sizes))
            IN V(wantI \in SeqToSet(cm) /\ wantS \in SeqToSet(cm), "c18.context-annotation", "", b, cm, << wantI, wantS >>))
       \o V({ X.dot.txnctx[k].id : k \in 1..Len(X.dot.txnctx) } = G.retained, "c18.context.nodes", "", -1,
            { X.dot.txnctx[k].id : k \in 1..Len(X.dot.txnctx) }, G.retained)
       (* --filter-paths removes exactly the matching paths *)
       \o Cat([i \in 1..Len(X.filters) |->
                 LET f == X.filters[i] IN
                 V(f.exit = 0 /\ f.exc = "", "c17.command", "detect --filter-paths", -1, << f.exit, f.exc >>, << 0, "" >>)
              \o Cat([k \in 1..Len(f.result) |->
                        LET r == f.result[k]
                            want == SelectSeq(jsonPaths(r.check), LAMBDA pth : ~Matches(f.pattern, pth))
                        IN V(r.paths = want /\ r.count = Len(want), "c18.filter-paths", r.check, -1, r.paths, want)])]))

VARIABLE p
Init == p = 1
Next == p' \in {2 * p, 2 * p + 1} /\ p' <= N
Report ==
    p > N \/
    LET c  == Cases[p]
        vs == Violations(c)
    IN  /\ \A i \in 1..Len(vs) :
               PrintT("@@W " \o ToJson([pid |-> c.pid, clause |-> vs[i].clause, det |-> vs[i].det, b |-> vs[i].b,
                                       obs |-> vs[i].obs, exp |-> vs[i].exp]) \o " W@@")
        /\ PrintT("@@S " \o ToJson([pid |-> c.pid, ok |-> c.obs.ok]) \o " S@@")
=============================================================================
