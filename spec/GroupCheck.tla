------------------------------ MODULE GroupCheck ------------------------------
(* C13 judgement: the transactions the REAL tool reported vulnerable for each configuration and detector  *)
(* against Group!Vulnerable evaluated on the tool's own leaf contexts; and, for a group of one            *)
(* transaction, against the single-contract verdict (some path reported).                                  *)
EXTENDS Group, Json, IOUtils
Data  == JsonDeserialize(IOEnv.OBS_FILE)
Cases == Data.cases          \* [pid, txs, obs: [ok, exc, vuln: [detector -> <<tx numbers>>]]]
Pool  == Data.pool           \* [isApp, leaves, single: [detector -> BOOLEAN (some path reported)]]
N     == Len(Cases)

V(ok, clause, det, b, obs, exp) ==
    IF ok THEN << >> ELSE << [clause |-> clause, det |-> det, b |-> b, obs |-> ToJson(obs), exp |-> ToJson(exp)] >>
Cat(seqs) == LET RECURSIVE CC(_)
                 CC(i) == IF i = 0 THEN << >> ELSE CC(i - 1) \o seqs[i]
             IN CC(Len(seqs))

Violations(x) ==
    IF ~x.obs.ok THEN V(FALSE, "c13.crash", "", -1, x.obs.exc, "the configuration is analysed")
    ELSE Cat([k \in 1..Len(DetectorNames) |->
            LET d == DetectorNames[k]
                want == { j \in 1..Len(x.txs) : Vulnerable(x.txs, Pool, d, j) }
                got == SeqToSet(x.obs.vuln[d])
            IN V(got = want, "c13.verdict", d, -1, got, want)
            \o (IF Len(x.txs) = 1 /\ Eligible(d, x.txs[1], Pool[x.txs[1].c].isApp) /\ x.txs[1].abs = -1
                THEN V((1 \in got) = Pool[x.txs[1].c].single[d], "c13.single-contract", d, -1, 1 \in got,
                       Pool[x.txs[1].c].single[d])
                ELSE << >>)])

VARIABLE p
Init == p = 1
Next == p' \in {2 * p, 2 * p + 1} /\ p' <= N
Report ==
    p > N \/
    LET x  == Cases[p]
        vs == Violations(x)
    IN  /\ \A i \in 1..Len(vs) :
               PrintT("@@W " \o ToJson([pid |-> x.pid, clause |-> vs[i].clause, det |-> vs[i].det, b |-> vs[i].b,
                                       obs |-> vs[i].obs, exp |-> vs[i].exp]) \o " W@@")
        /\ PrintT("@@S " \o ToJson([pid |-> x.pid, n |-> Len(x.txs),
                                   nv |-> Cardinality(UNION { SeqToSet(x.obs.vuln[DetectorNames[k]]) : k \in 1..Len(DetectorNames) }),
                                   \* (detector, transaction) pairs cleared by ANOTHER member only
                                   nc |-> Cardinality({ dj \in (1..Len(DetectorNames)) \X (1..Len(x.txs)) :
                                             LET d == DetectorNames[dj[1]]
                                                 t == x.txs[dj[2]] IN
                                             /\ Eligible(d, t, Pool[t.c].isApp)
                                             /\ ~SelfChecks(Pool[t.c].leaves, d, t.abs)
                                             /\ ~Vulnerable(x.txs, Pool, d, dj[2]) }),
                                   \* ... of which through a relative offset while another member declares the same target
                                   n2 |-> Cardinality({ j \in 1..Len(x.txs) :
                                             Cardinality({ k \in 1..Len(x.txs) : \E r \in 1..Len(x.txs[k].rel) : x.txs[k].rel[r].to = j }) > 1 })]) \o " S@@")
=============================================================================
