------------------------------ MODULE GroupCheck ------------------------------
(* C13 judgement.                                                                                          *)
(*   c13.sound     a transaction the tool did NOT report for detector d, although it is eligible, while     *)
(*                 GroupSem finds a concrete group consistent with the configuration that every member's   *)
(*                 contract approves on the Avm machine with the target carrying d's dangerous value       *)
(*   c13.verdict / c13.single-contract:                                                                    *)
(* the transactions the REAL tool reported vulnerable for each configuration and detector                  *)
(* against Group!Vulnerable evaluated on the tool's own leaf contexts; and, for a group of one            *)
(* transaction, against the single-contract verdict (some path reported).                                  *)
EXTENDS Group, GroupSem, Json, IOUtils
Data  == JsonDeserialize(IOEnv.OBS_FILE)
Cases == Data.cases          \* [pid, txs, obs: [ok, exc, vuln: [detector -> <<tx numbers>>]]]
Pool0 == Data.pool           \* [isApp, prog, leaves, single: [detector -> BOOLEAN (some path reported)]]
Pool  == [c \in 1..Len(Pool0) |-> [isApp |-> Pool0[c].isApp, prog |-> Pool0[c].prog, st |-> Static(Pool0[c].prog),
                                    leaves |-> Pool0[c].leaves, single |-> Pool0[c].single]]
N     == Len(Cases)

V(ok, clause, det, b, obs, exp) ==
    IF ok THEN << >> ELSE << [clause |-> clause, det |-> det, b |-> b, obs |-> ToJson(obs), exp |-> ToJson(exp)] >>

Violations(x) ==
    IF ~x.obs.ok THEN V(FALSE, "c13.crash", "", -1, x.obs.exc, "the configuration is analysed")
    ELSE Cat([k \in 1..Len(DetectorNames) |->
            LET d == DetectorNames[k]
                want == { j \in 1..Len(x.txs) : Vulnerable(x.txs, Pool, d, j) }
                got == SeqToSet(x.obs.vuln[d])
                missed == { j \in 1..Len(x.txs) : /\ j \notin got
                                                    /\ Eligible(d, x.txs[j], Pool[x.txs[j].c].isApp)
                                                    /\ Witness(x.txs, Pool, d, j) }
            IN V(got = want, "c13.verdict", d, -1, got, want)
            \o (IF missed = {} THEN << >>
                ELSE LET j == CHOOSE j \in missed : TRUE IN
                     V(FALSE, "c13.sound", d, -1, [not_reported |-> j, approved_group |-> WitnessGroup(x.txs, Pool, d, j)],
                       "reported vulnerable"))
            \o (IF Len(x.txs) = 1 /\ Eligible(d, x.txs[1], Pool[x.txs[1].c].isApp) /\ x.txs[1].abs = -1
                THEN V((1 \in got) = Pool[x.txs[1].c].single[d], "c13.single-contract", d, -1, 1 \in got,
                       Pool[x.txs[1].c].single[d])
                ELSE << >>)])

VARIABLE p
Init == p = 1
Next == p' \in {2 * p, 2 * p + 1} /\ p' <= N
Report ==
    p > N \/
    LET x  == Cases[p]
        vs == Violations(x)
    IN  /\ \A i \in 1..Len(vs) :
               PrintT("@@W " \o ToJson([pid |-> x.pid, clause |-> vs[i].clause, det |-> vs[i].det, b |-> vs[i].b,
                                       obs |-> vs[i].obs, exp |-> vs[i].exp]) \o " W@@")
        /\ PrintT("@@S " \o ToJson([pid |-> x.pid, n |-> Len(x.txs),
                                   nv |-> Cardinality(UNION { SeqToSet(x.obs.vuln[DetectorNames[k]]) : k \in 1..Len(DetectorNames) }),
                                   \* (detector, transaction) pairs cleared by ANOTHER member only
                                   nc |-> Cardinality({ dj \in (1..Len(DetectorNames)) \X (1..Len(x.txs)) :
                                             LET d == DetectorNames[dj[1]]
                                                 t == x.txs[dj[2]] IN
                                             /\ Eligible(d, t, Pool[t.c].isApp)
                                             /\ ~SelfChecks(Pool[t.c].leaves, d, t.abs)
                                             /\ ~Vulnerable(x.txs, Pool, d, dj[2]) }),
                                   \* soundness clause: (detector, transaction) pairs not reported although eligible, each searched
                                   \* for an approved concrete group; and, on every fifth configuration, reported pairs for which
                                   \* such a group exists (shows that the search does find groups)
                                   ns |-> Cardinality({ dj \in (1..Len(DetectorNames)) \X (1..Len(x.txs)) :
                                             /\ Eligible(DetectorNames[dj[1]], x.txs[dj[2]], Pool[x.txs[dj[2]].c].isApp)
                                             /\ dj[2] \notin SeqToSet(x.obs.vuln[DetectorNames[dj[1]]]) }),
                                   nw |-> IF x.pid % 5 # 0 THEN 0 ELSE
                                          Cardinality({ dj \in (1..Len(DetectorNames)) \X (1..Len(x.txs)) :
                                             /\ dj[2] \in SeqToSet(x.obs.vuln[DetectorNames[dj[1]]])
                                             /\ Witness(x.txs, Pool, DetectorNames[dj[1]], dj[2]) }),
                                   \* ... of which through a relative offset while another member declares the same target
                                   n2 |-> Cardinality({ j \in 1..Len(x.txs) :
                                             Cardinality({ k \in 1..Len(x.txs) : \E r \in 1..Len(x.txs[k].rel) : x.txs[k].rel[r].to = j }) > 1 })]) \o " S@@")
=============================================================================
