------------------------------ MODULE LineCheck ------------------------------
(***************************************************************************)
(* C16, C11(a) and the per-instruction half of C19.  Every line case of    *)
(* LineGen.tla was rendered (in several whitespace / comment variants),    *)
(* parsed by the REAL parser and projected; here the projection is judged: *)
(*  c16.opcode      the printed mnemonic is the opcode written             *)
(*  c16.print       str(instruction) is the canonical spelling             *)
(*  c16.roundtrip   parsing the printed form gives the same instruction    *)
(*  c16.variant     comments / indentation / blank lines change nothing    *)
(*  c16.line        recorded line number is the 1-based source line        *)
(*  c16.unsupported a mnemonic that is no opcode stays verbatim            *)
(*  c11.effect      declared pops / pushes are the AVM's                   *)
(*  c19.version / c19.mode / c19.cost   per-instruction tables             *)
(***************************************************************************)
EXTENDS LineGen, Json, IOUtils, SequencesExt

Data  == JsonDeserialize(IOEnv.OBS_FILE)
Cases == Data.cases
N     == Len(Cases)

V(ok, clause, obs, exp) == IF ok THEN << >> ELSE << [clause |-> clause, obs |-> ToJson(obs), exp |-> ToJson(exp)] >>
JoinSp(sq) == LET RECURSIVE J(_)
                  J(i) == IF i = 0 THEN "" ELSE IF i = 1 THEN sq[1] ELSE J(i - 1) \o " " \o sq[i]
              IN J(Len(sq))
ModeName(m) == CASE m = "any" -> "Any" [] m = "app" -> "Stateful" [] m = "sig" -> "Stateless"

Violations(x) ==
    IF x.kind = "miss"
    THEN V(x.obs.cls = "UnsupportedInstruction" /\ x.obs.str = x.text, "c16.unsupported", << x.obs.cls, x.obs.str >>,
           << "UnsupportedInstruction", x.text >>)
    ELSE
    LET c == x.case
        o == x.obs
        want == IF c.canon = << >> THEN c.op ELSE c.op \o " " \o JoinSp(c.canon)
        row8 == Row(c.op, c.n, c.k, c.s, 8)
        row1 == Row(c.op, c.n, c.k, c.s, 1)
    IN
       V(o.ok, "c16.parse-error", o.exc, "parses")
    \o (IF ~o.ok THEN << >> ELSE
          V(o.mnemonic = c.op, "c16.opcode", o.mnemonic, c.op)
       \o V(o.str = want, "c16.print", o.str, want)
       \o V(o.re_ok /\ o.re_str = o.str /\ o.re_cls = o.cls, "c16.roundtrip", << o.re_ok, o.re_cls, o.re_str >>,
            << TRUE, o.cls, o.str >>)
       \o V(\A i \in 1..Len(o.variants) : o.variants[i].str = o.str /\ o.variants[i].cls = o.cls /\ o.variants[i].line = o.variants[i].want_line,
            "c16.variant", o.variants, o.str)
       \o V(o.line = 2, "c16.line", o.line, 2)
       \o V(o.pop = row8.pops /\ o.push = row8.pushes, "c11.effect", << o.pop, o.push >>, << row8.pops, row8.pushes >>)
       \o (IF row8.conf = "sure" THEN V(o.ver = row8.ver, "c19.version", o.ver, row8.ver) ELSE << >>)
       \o V(o.mode = ModeName(row8.mode), "c19.mode", o.mode, ModeName(row8.mode))
       \o (IF row8.conf = "sure"
           \* (the cost under `#pragma version 1` is only meaningful for opcodes that exist in version 1)
           THEN V(o.cost8 = row8.cost /\ (row8.ver > 1 \/ o.cost1 = row1.cost), "c19.cost", << o.cost8, o.cost1 >>,
                  << row8.cost, row1.cost >>)
           ELSE << >>)
       \o (IF c.op \in { "asset_holding_get", "asset_params_get", "app_params_get", "acct_params_get" } THEN << >>
           ELSE V(o.fver = FieldVer(c), "c19.field-version", o.fver, FieldVer(c))))

VARIABLE p
Init == p = 1
Next == p' \in {2 * p, 2 * p + 1} /\ p' <= N
Report ==
    p > N \/
    LET x  == Cases[p]
        vs == Violations(x)
    IN  /\ \A i \in 1..Len(vs) :
               PrintT("@@W " \o ToJson([pid |-> x.pid, clause |-> vs[i].clause, obs |-> vs[i].obs, exp |-> vs[i].exp]) \o " W@@")
        /\ PrintT("@@S " \o ToJson([pid |-> x.pid]) \o " S@@")
=============================================================================
