------------------------------- MODULE Session -------------------------------
(***************************************************************************)
(* A tealer PROCESS (C14).  The code keeps state that outlives one         *)
(* analysis: module-level universal-set lists, class-level key lists, two  *)
(* lru_caches keyed by block objects, the functions of a Teal object.  The *)
(* specification models that state as `seen` / `runs` and says that it is  *)
(* never observable: the visible result of every action is Pure[c][kind],  *)
(* a function of the contract and of the action alone.                     *)
(*                                                                         *)
(* Actions (one per public entry point used by the CLI):                   *)
(*   Analyse(c, o)  parse contract c, build its function, register the     *)
(*                  detectors in order o and run them                      *)
(*   Rerun(c)       run the registered detectors of the last Analyse again *)
(* Pure is DATA: the results recorded from fresh single-action processes.  *)
(* TLC enumerates histories (SessionGen below); each is replayed in one    *)
(* real process, possibly under another PYTHONHASHSEED, and the recorded   *)
(* results are validated as a trace of this specification (SessionTrace).  *)
(***************************************************************************)
EXTENDS Integers, Sequences, FiniteSets

CONSTANTS NContracts, NOrders
Contracts == 1..NContracts
Orders    == 1..NOrders

VARIABLES hist,      \* actions performed so far
          seen,      \* contracts analysed so far in this process (hidden state: caches, shared lists)
          last,      \* contract of the last Analyse (what Rerun works on), 0 if none
          out        \* visible result of the last action

vars == << hist, seen, last, out >>

Init == hist = << >> /\ seen = {} /\ last = 0 /\ out = "none"

(* Result(c) is supplied by the module that instantiates the behaviour: Pure data *)
Analyse(c, o, Result(_)) ==
    /\ hist' = Append(hist, [kind |-> "analyse", c |-> c, o |-> o])
    /\ seen' = seen \cup {c}
    /\ last' = c
    /\ out'  = Result(c)
Rerun(Result(_)) ==
    /\ last # 0
    /\ hist' = Append(hist, [kind |-> "rerun", c |-> last, o |-> 0])
    /\ UNCHANGED << seen, last >>
    /\ out'  = Result(last)

(* the property the specification states: the result never depends on the history *)
NoInterference(Result(_)) == hist = << >> \/ out = Result(hist[Len(hist)].c)
=============================================================================
