-------------------------------- MODULE Cfg --------------------------------
(***************************************************************************)
(* What the control-flow graph of a TEAL program must be, as a function of *)
(* the instruction list alone (properties C04, C05).  Nothing here looks   *)
(* at tealer: the observation of the real tool is compared with these      *)
(* definitions by CfgCheck / ProgCheck.                                    *)
(*                                                                         *)
(* Blocks are identified by their rank (0-based) among ALL blocks of the   *)
(* text in source order - the numbering the tool assigns before it prunes  *)
(* unreachable blocks - so ids of retained blocks may have gaps.           *)
(*                                                                         *)
(* Graph(P) computes the tables once; every other operator takes the       *)
(* resulting record G (TLC evaluates a LET-bound G a single time).         *)
(***************************************************************************)
EXTENDS Teal, TLC

(* first instructions of blocks: line 1, every label, every instruction    *)
(* following a block-ending instruction                                    *)
Leaders(P) == {1} \cup { i \in 2..Len(P) : P[i].op = "label" \/ P[i-1].op \in BlockEndOps }

(* blocks reachable from each block (reflexive-transitive closure of succ) by repeated         *)
(* doubling: r1 = one step, r2 = two steps, ... r64; not recursive, see the note in Teal.tla   *)
ReachTable(ids, succ) ==
    LET r1  == TLCEval([b \in ids |-> {b} \cup SeqToSet(succ[b])])
        Dbl(r) == TLCEval([b \in ids |-> UNION { r[t] : t \in r[b] }])      \* TLCEval: tabulate, do not recompute
        r2  == Dbl(r1)
        r4  == Dbl(r2)
        r8  == Dbl(r4)
        r16 == Dbl(r8)
        r32 == Dbl(r16)
    IN  Dbl(r32)

(* the same for a step function that yields sets *)
ReachSets(ids, step) ==
    LET r1  == TLCEval([b \in ids |-> {b} \cup (step[b] \cap ids)])
        Dbl(r) == TLCEval([b \in ids |-> UNION { r[t] : t \in r[b] }])
        r2  == Dbl(r1)
        r4  == Dbl(r2)
        r8  == Dbl(r4)
        r16 == Dbl(r8)
        r32 == Dbl(r16)
    IN  Dbl(r32)

Graph(P) ==
    LET starts == SortedSeq(Leaders(P))            \* starts[b+1] = first position of block b
        nb     == Len(starts)
        ids    == 0..(nb - 1)
        ends   == [b \in ids |-> IF b = nb - 1 THEN Len(P) ELSE starts[b + 2] - 1]
        blockOf == [i \in 1..Len(P) |-> Cardinality({ k \in 1..nb : starts[k] <= i }) - 1]
        (* Ordered successor list: the fall-through block first (also for  *)
        (* callsub: the return point), then the jump targets in operand    *)
        (* order; no duplicates.  For bz/bnz this is <<fall-through,       *)
        (* target>>, one element only when the two coincide or the branch  *)
        (* is the last instruction.                                        *)
        succ   == [b \in ids |->
                     LET e    == ends[b]
                         fall == IF FallsThrough(P, e) /\ e < Len(P) THEN << blockOf[e + 1] >> ELSE << >>
                         jt   == JumpTargets(P, e)
                         jmps == [k \in 1..Len(jt) |-> blockOf[jt[k]]]
                     IN  DedupSeq(fall \o jmps)]
        subNames == CallTargets(P)
        subEntry == [nm \in subNames |-> blockOf[LabelPos(P, nm)]]
        reach    == ReachTable(ids, succ)
        subBlocks == [nm \in subNames |-> reach[subEntry[nm]]]
        mainBlocks == reach[0]
        (* retained = reachable from the entry or from the target of ANY   *)
        (* callsub in the text (calls themselves are not followed: a       *)
        (* callsub block continues at its return point)                    *)
        retained == mainBlocks \cup UNION { subBlocks[nm] : nm \in subNames }
    IN  [ nb |-> nb, ids |-> ids, start |-> [b \in ids |-> starts[b + 1]], end |-> ends,
          blockOf |-> blockOf, succ |-> succ, subNames |-> subNames, subEntry |-> subEntry,
          subBlocks |-> subBlocks, mainBlocks |-> mainBlocks, retained |-> retained ]

BlockLines(G, b) == [k \in 1..(G.end[b] - G.start[b] + 1) |-> G.start[b] + k - 1]
ExitIns(G, P, b) == P[G.end[b]]
SuccSet(G, b)    == SeqToSet(G.succ[b])
PredSet(G, b)    == { a \in G.retained : b \in SuccSet(G, a) }

IsCallBlock(G, P, b)   == ExitIns(G, P, b).op = "callsub"
IsRetsubBlock(G, P, b) == ExitIns(G, P, b).op = "retsub"
Callee(G, P, b)        == ExitIns(G, P, b).s
(* -1 when the call is the last instruction *)
ReturnPoint(G, b)      == IF G.succ[b] = << >> THEN -1 ELSE G.succ[b][1]

(* call sites of nm in the retained graph, in source order *)
Callers(G, P, nm) == SortedSeq({ b \in G.retained : IsCallBlock(G, P, b) /\ Callee(G, P, b) = nm })
RetPoints(G, P, nm) ==
    LET cs == Callers(G, P, nm)
        withRet == SelectSeq(cs, LAMBDA c : ReturnPoint(G, c) # -1)
    IN  [j \in 1..Len(withRet) |-> ReturnPoint(G, withRet[j])]
SubExits(G, P, S)   == { b \in S : G.succ[b] = << >> \/ IsRetsubBlock(G, P, b) }
SubRetsubs(G, P, S) == { b \in S : IsRetsubBlock(G, P, b) }

(* call graph: f -> g iff a callsub retained in f targets g; "__main__" is the entry code *)
CallGraph(G, P) ==
    { << "__main__", Callee(G, P, b) >> : b \in { c \in G.mainBlocks : IsCallBlock(G, P, c) } }
    \cup UNION { { << nm, Callee(G, P, b) >> : b \in { c \in G.subBlocks[nm] : IsCallBlock(G, P, c) } }
                 : nm \in G.subNames }

(* leaf of the global graph: execution can terminate there *)
IsLeaf(G, P, b) == G.succ[b] = << >> /\ ~IsRetsubBlock(G, P, b) /\ ~IsCallBlock(G, P, b)

(* subroutines used by the function whose main code is mainBlocks: closure of calls *)
RECURSIVE UsedSubsFrom(_, _, _, _)
UsedSubsFrom(G, P, S, n) ==
    LET blocks == G.mainBlocks \cup UNION { G.subBlocks[nm] : nm \in S }
        T == S \cup { Callee(G, P, b) : b \in { c \in blocks : IsCallBlock(G, P, c) } }
    IN  IF T = S \/ n = 0 THEN S ELSE UsedSubsFrom(G, P, T, n - 1)
UsedSubs(G, P) == UsedSubsFrom(G, P, {}, Cardinality(G.subNames) + 1)
FunctionBlocks(G, P) == G.mainBlocks \cup UNION { G.subBlocks[nm] : nm \in UsedSubs(G, P) }

(* Structured programs (the premise of C17 and of the analyses): a block    *)
(* belongs to one code region only - subroutine bodies are entered only     *)
(* through callsub.                                                         *)
Structured(G) ==
    /\ \A nm \in G.subNames : G.subBlocks[nm] \cap G.mainBlocks = {}
    /\ \A n1, n2 \in G.subNames : n1 # n2 => G.subBlocks[n1] \cap G.subBlocks[n2] = {}
=============================================================================
