------------------------------ MODULE LineEmit ------------------------------
(* prints the line cases of LineGen.tla, one JSON object per line *)
EXTENDS LineGen, Json, SequencesExt
CaseSeq == SetToSeq(LineCases)
MissSeq == SetToSeq(NearMisses)
Total == Len(CaseSeq) + Len(MissSeq)
VARIABLE k
Init == k = 1
Next == k' \in {2 * k, 2 * k + 1} /\ k' <= Total
Emit == k > Total \/
        IF k <= Len(CaseSeq)
        THEN PrintT("@@P " \o ToJson([kind |-> "op", case |-> CaseSeq[k]]) \o " P@@")
        ELSE PrintT("@@P " \o ToJson([kind |-> "miss", text |-> MissSeq[k - Len(CaseSeq)]]) \o " P@@")
=============================================================================
