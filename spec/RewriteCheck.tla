----------------------------- MODULE RewriteCheck -----------------------------
(***************************************************************************)
(* C15.  Emission: for every input program the applicable rewrites of      *)
(* Rewrite.tla (QEmit).  Judgement: the real tool analysed the original    *)
(* and the rewritten text; under the induced block map                     *)
(*   c15.context   every block has the same recorded context               *)
(*   c15.verdict   every detector reports the same set of paths            *)
(* and, as a check of the specification itself (exit 2, not a violation),  *)
(*   spec.rewrite-not-equivalent  both texts must approve exactly the same *)
(*   transaction groups on the Avm machine.                                *)
(***************************************************************************)
EXTENDS Reps, Rewrite, Json, IOUtils, SequencesExt

Data  == JsonDeserialize(IOEnv.OBS_FILE)
Cases == Data.cases
N     == Len(Cases)

RECURSIVE RunToEnd(_, _, _, _, _)
RunToEnd(P, S, env, m, fuel) ==
    IF m.status # "run" \/ fuel = 0 THEN m ELSE RunToEnd(P, S, env, Step(P, S, env, m), fuel - 1)
Verdict(P, env) == LET S == Static(P) IN RunToEnd(P, S, env, InitMachine(S), 220).status

V(ok, clause, det, b, obs, exp) ==
    IF ok THEN << >> ELSE << [clause |-> clause, det |-> det, b |-> b, obs |-> ToJson(obs), exp |-> ToJson(exp)] >>
ForEach(S, F(_)) == LET ss == SortedSeq(S) IN Cat([i \in 1..Len(ss) |-> F(ss[i])])

DetectorNames == << "rekey-to", "can-close-account", "can-close-asset", "missing-fee-check", "is-updatable",
                    "is-deletable", "unprotected-updatable", "unprotected-deletable", "group-size-check" >>

(* a recorded context with its pooled sub-contexts expanded, so that two observations can be compared *)
Flat(c) == [sizes |-> c.sizes, indices |-> c.indices, kinds |-> c.kinds, rekey |-> c.rekey, close |-> c.close,
            aclose |-> c.aclose, sender |-> c.sender, fee |-> c.fee, feeunk |-> c.feeunk,
            G |-> [i \in 1..16 |-> c.pool[c.G[i]]], A |-> [i \in 1..16 |-> c.pool[c.A[i]]],
            R |-> [i \in 1..30 |-> c.pool[c.R[i]]]]

Violations(x) ==
    LET P == x.prog
        Q == x.prog2
        G1 == Graph(P)
        G2 == Graph(Q)
        \* a block of the original corresponds to the rewritten block that holds its LAST instruction (moving the
        \* subroutines splits the entry block into `pragma; b main` and the rest)
        bmap(b) == G2.blockOf[x.map[G1.end[b]]]
        \* and a rewritten block to the original block of the first original instruction it holds (none: -1)
        back(b2) == LET pre == { i \in 1..Len(P) : G2.blockOf[x.map[i]] = b2 }
                    IN IF pre = {} THEN -1 ELSE G1.blockOf[MinOf(pre)]
        collapse(sq) == LET keep == { i \in 1..Len(sq) : sq[i] # -1 /\ (i = 1 \/ sq[i - 1] # sq[i]) }
                            ks == SortedSeq(keep)
                        IN [k \in 1..Len(ks) |-> sq[ks[k]]]
        O1 == x.obs
        O2 == x.obs2
        blocks == { b \in G1.retained : ToString(b) \in DOMAIN O1.ctx }
        \* the equivalence of the two texts is checked on (at most) the first 40 inputs of the space
        allEnvs == SetToSeq(Envs(P, Static(P).isApp))
        envs == { allEnvs[i] : i \in 1..(IF Len(allEnvs) > 40 THEN 40 ELSE Len(allEnvs)) }
        differ == { e \in envs : (Verdict(P, e) = "acc") # (Verdict(Q, e) = "acc") }
    IN
    IF ~O1.ok \/ ~O2.ok THEN V(O1.ok = O2.ok, "c15.analysable", "", -1, << O1.ok, O2.ok >>, "both analysed")
    ELSE
       V(differ = {}, "spec.rewrite-not-equivalent", x.r, -1, Cardinality(differ), 0)
    \o ForEach(blocks, LAMBDA b :
          LET b2 == bmap(b) IN
          IF ToString(b2) \notin DOMAIN O2.ctx THEN V(FALSE, "c15.context", x.r, b, "no block", b2)
          ELSE V(Flat(O1.ctx[ToString(b)]) = Flat(O2.ctx[ToString(b2)]), "c15.context", x.r, b,
                 << O1.ctx[ToString(b)].sizes, O1.ctx[ToString(b)].kinds, O1.ctx[ToString(b)].rekey, O1.ctx[ToString(b)].fee >>,
                 << O2.ctx[ToString(b2)].sizes, O2.ctx[ToString(b2)].kinds, O2.ctx[ToString(b2)].rekey, O2.ctx[ToString(b2)].fee >>))
    \o Cat([k \in 1..Len(DetectorNames) |->
              LET d == DetectorNames[k]
                  p1 == SeqToSet(O1.det[d].paths)
                  p2 == { collapse([i \in 1..Len(O2.det[d].paths[j]) |-> back(O2.det[d].paths[j][i])]) : j \in 1..Len(O2.det[d].paths) }
              IN V(p1 = p2, "c15.verdict", d, -1, O2.det[d].paths, p1)])

VARIABLE p
Init == p = 1
Next == p' \in {2 * p, 2 * p + 1} /\ p' <= N
Report ==
    p > N \/
    LET x  == Cases[p]
        vs == Violations(x)
    IN  /\ \A i \in 1..Len(vs) :
               PrintT("@@W " \o ToJson([pid |-> x.pid, clause |-> vs[i].clause, det |-> vs[i].det, b |-> vs[i].b,
                                       obs |-> vs[i].obs, exp |-> vs[i].exp]) \o " W@@")
        /\ PrintT("@@S " \o ToJson([pid |-> x.pid]) \o " S@@")

(* three pseudo-randomly chosen rewrites per program (all of them when AllRewrites) *)
QEmit ==
    p > N \/
    LET c == Cases[p]
        pick == { Rewrites[1 + ((c.pid * 7 + k * 3) % Len(Rewrites))] : k \in 1..3 }
    IN \A r \in pick :
          LET a == Apply(c.prog, r) IN
          a.prog = c.prog \/
          PrintT("@@Q " \o ToJson([pid |-> c.pid, r |-> r, prog2 |-> a.prog, map |-> a.map]) \o " Q@@")
=============================================================================
