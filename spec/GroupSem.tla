------------------------------- MODULE GroupSem -------------------------------
(***************************************************************************)
(* C13, concrete side: the transaction groups that are CONSISTENT with a   *)
(* configuration and that every configured contract approves.              *)
(*                                                                         *)
(* A configuration is a sequence of transactions [c, typ, abs, rel] over a *)
(* pool of contracts (pool[c] = [isApp, prog, ...]).  A concrete group is  *)
(*   s     its size (1..MaxSize)                                           *)
(*   pos   the position of every configured transaction: injective,        *)
(*         pos[j] = abs when an absolute index is configured, and          *)
(*         pos[to] = pos[k] + off for every declared offset of k           *)
(*   tx    one transaction record per configured transaction, of the       *)
(*         configured type (an application member is an application call)  *)
(* every other position holds Avm!DefaultTx.  The group is APPROVED when   *)
(* the Avm machine accepts every member's contract run at its position.    *)
(*                                                                         *)
(* Only the fields some member reads (of itself, or through the group) are *)
(* enumerated - the others cannot influence any run - plus the dangerous   *)
(* value of the detector on the target, which is fixed.                    *)
(***************************************************************************)
EXTENDS Reps

MaxSize == 5
RECURSIVE GRun(_, _, _, _, _)
GRun(P, S, env, m, fuel) ==
    IF m.status # "run" \/ fuel = 0 THEN m ELSE GRun(P, S, env, Step(P, S, env, m), fuel - 1)
Approves(P, S, env) == GRun(P, S, env, InitMachine(S), 200).status = "acc"

Placements(cfg, s) ==
    LET n == Len(cfg) IN
    { pos \in [1..n -> 0..(s - 1)] :
        /\ \A i, j \in 1..n : i # j => pos[i] # pos[j]
        /\ \A j \in 1..n : cfg[j].abs = -1 \/ pos[j] = cfg[j].abs
        /\ \A k \in 1..n : \A r \in 1..Len(cfg[k].rel) : pos[cfg[k].rel[r].to] = pos[k] + cfg[k].rel[r].off }

TypeCodes(t, isApp) ==
    LET byTyp == CASE t.typ = "pay" -> {1} [] t.typ = "axfer" -> {4} [] t.typ = "appl" -> {6} [] OTHER -> {1, 4, 6}
    IN IF isApp THEN byTyp \cap {6} ELSE byTyp

(* what the detector d calls dangerous, as constraints on the target record *)
Danger(d, t) ==
    CASE d = "rekey-to"              -> t.rekey = ATTACKER
      [] d = "can-close-account"     -> t.te = 1 /\ t.close = ATTACKER
      [] d = "can-close-asset"       -> t.te = 4 /\ t.aclose = ATTACKER
      [] d = "missing-fee-check"     -> t.fee = 272001
      [] d = "is-updatable"          -> t.te = 6 /\ t.oc = 4
      [] d = "is-deletable"          -> t.te = 6 /\ t.oc = 5
      [] d = "unprotected-updatable" -> t.te = 6 /\ t.oc = 4 /\ t.snd = ATTACKER
      [] d = "unprotected-deletable" -> t.te = 6 /\ t.oc = 5 /\ t.snd = ATTACKER
DangerFields(d) ==
    CASE d = "rekey-to" -> {"RekeyTo"} [] d = "can-close-account" -> {"CloseRemainderTo", "TypeEnum"}
      [] d = "can-close-asset" -> {"AssetCloseTo", "TypeEnum"} [] d = "missing-fee-check" -> {"Fee"}
      [] d \in {"is-updatable", "is-deletable"} -> {"OnCompletion", "TypeEnum"}
      [] OTHER -> {"OnCompletion", "TypeEnum", "Sender"}

(* records of configured transaction j: rd = the fields somebody reads of it *)
TxSpace(t, isApp, rd, feeConsts) ==
    LET sp(f, S, dflt) == IF f \in rd THEN S ELSE {dflt} IN
    { x \in { [ te |-> te, oc |-> oc, appid |-> IF te = 6 THEN 7 ELSE 0, fee |-> fee, snd |-> snd, rekey |-> rk,
                close |-> cl, aclose |-> ac, fv |-> 0, lv |-> 0, amt |-> 0, aamt |-> 0 ] :
              te \in TypeCodes(t, isApp), oc \in sp("OnCompletion", {0, 4, 5}, 0),
              fee \in sp("Fee", {0, 1000, 272001} \cup feeConsts, 1000),
              snd \in sp("Sender", {1, CREATOR, ATTACKER}, 1), rk \in sp("RekeyTo", {ZEROADDR, 1, ATTACKER}, ZEROADDR),
              cl \in sp("CloseRemainderTo", {ZEROADDR, 1, ATTACKER}, ZEROADDR),
              ac \in sp("AssetCloseTo", {ZEROADDR, 1, ATTACKER}, ZEROADDR) } :
          WellFormed(x) /\ (x.te # 6 => x.oc = 0) }

Tuples(n, Sp(_)) ==
    CASE n = 1 -> { << a >> : a \in Sp(1) }
      [] n = 2 -> { << a, b >> : a \in Sp(1), b \in Sp(2) }
      [] n = 3 -> { << a, b, c >> : a \in Sp(1), b \in Sp(2), c \in Sp(3) }

(* The approved concrete groups for detector d and target j (pool[c].st = Avm!Static(pool[c].prog)).         *)
(* A member that reads nothing through the group is decided on its own record first, so that the product   *)
(* is only taken over records that member accepts.                                                          *)
Groups(cfg, pool, d, j, s, pos) ==
    LET n == Len(cfg)
        prog(k) == pool[cfg[k].c].prog
        st(k) == pool[cfg[k].c].st
        grpReads == UNION { ReadsGroup(prog(k)) : k \in 1..n }
        feeConsts == UNION { Around({ c \in IntConsts(prog(k)) : 100 <= c /\ c <= 1000000 }, 0, 1000001) : k \in 1..n }
        rd(k) == ReadsOwn(prog(k)) \cup grpReads \cup (IF k = j THEN DangerFields(d) ELSE {})
        Sp(k) == { x \in TxSpace(cfg[k], pool[cfg[k].c].isApp, rd(k), feeConsts) : k # j \/ Danger(d, x) }
        solo(k) == ReadsGroup(prog(k)) = {}
        F(k) == IF solo(k)
                THEN { x \in Sp(k) : Approves(prog(k), st(k), [size |-> s, idx |-> pos[k], tx |-> (pos[k] :> x)]) }
                ELSE Sp(k)
        at(tx) == [q \in { pos[k] : k \in 1..n } |-> tx[CHOOSE k \in 1..n : pos[k] = q]]
    IN  { tx \in Tuples(n, F) :
            \A k \in { i \in 1..n : ~solo(i) } : Approves(prog(k), st(k), [size |-> s, idx |-> pos[k], tx |-> at(tx)]) }
Witness(cfg, pool, d, j) ==
    \E s \in Len(cfg)..MaxSize : \E pos \in Placements(cfg, s) : Groups(cfg, pool, d, j, s, pos) # {}
WitnessGroup(cfg, pool, d, j) ==
    LET s == CHOOSE s \in Len(cfg)..MaxSize : \E pos \in Placements(cfg, s) : Groups(cfg, pool, d, j, s, pos) # {}
        pos == CHOOSE pos \in Placements(cfg, s) : Groups(cfg, pool, d, j, s, pos) # {}
    IN [size |-> s, pos |-> pos, tx |-> CHOOSE tx \in Groups(cfg, pool, d, j, s, pos) : TRUE]
=============================================================================
