------------------------------ MODULE SolverTrace ------------------------------
(***************************************************************************)
(* Trace validation of the real dataflow engine against Solver.tla.  With  *)
(* TEALER_VERIF=1 the tool records, for the analyses GroupIndices and      *)
(* TxnType (base key), the block and edge constraints it extracted, the    *)
(* initial worklist of each pass, every pop (block, value written, the     *)
(* worklist afterwards) and the stored result.  Each recorded event must   *)
(* be the corresponding Solver action with exactly the recorded effect:    *)
(*    IsEvent("pop") /\ b = Head(wl) /\ FwdPop(b, logged worklist)         *)
(*                   /\ out'[b] = logged value                             *)
(* The trace is accepted when every event has been consumed and the final  *)
(* liveout equals the recorded result.  A rejected trace is reported with  *)
(* the position of the first event that is not a step of the specification *)
(* (clause c14.solver-step): either the engine no longer computes the      *)
(* fixpoint the specification describes, or its schedule changed shape.    *)
(***************************************************************************)
EXTENDS Solver, Json, IOUtils, TLC

Rec == JsonDeserialize(IOEnv.TRACE_FILE)
Trace == Rec.events
(* the constants of Solver are bound to the recorded run in the .cfg:  P <- RecP, Keys <- RecKeys, ... *)
RecP == Rec.prog
RecKeys == Rec.keys
RecUniv == [k \in 1..Rec.keys |-> SeqToSet(Rec.univ[k])]
RecPrsv == [b \in { Rec.prsv[i].b : i \in 1..Len(Rec.prsv) } |->
              LET r == Rec.prsv[CHOOSE i \in 1..Len(Rec.prsv) : Rec.prsv[i].b = b] IN [k \in 1..Rec.keys |-> SeqToSet(r.val[k])]]
RecEdge == [i \in 1..Len(Rec.edges) |-> [to |-> Rec.edges[i].to, from |-> Rec.edges[i].from,
                                          val |-> [k \in 1..Rec.keys |-> SeqToSet(Rec.edges[i].val[k])]]]
VARIABLE l
tvars == << l, phase, prsv, out, wl >>

(* recorded values are sequences of sorted lists, one per component *)
Val(v) == [k \in 1..Keys |-> SeqToSet(v[k])]

TInit == l = 1 /\ Init
IsEvent(e) == l <= Len(Trace) /\ Trace[l].ev = e /\ l' = l + 1
TStart == /\ IsEvent("start") /\ Start(Trace[l].phase, Trace[l].wl)
TPop   == /\ IsEvent("pop")
          /\ wl # << >> /\ Trace[l].b = wl[1]                                  \* FIFO: the head is popped
          /\ IF Trace[l].phase = "fwd" THEN FwdPop(Trace[l].b, Trace[l].wl) ELSE BwdPop(Trace[l].b, Trace[l].wl)
          /\ out'[Trace[l].b] = Val(Trace[l].val)
TDone  == /\ IsEvent("done")
          /\ IF Trace[l].phase = "fwd" THEN FwdDone ELSE BwdDone
          /\ (Trace[l].phase = "fwd" \/ \A i \in 1..Len(Trace[l].result) :
                                            out'[Trace[l].result[i].b] = Val(Trace[l].result[i].val))
TNext == TStart \/ TPop \/ TDone

Stuck == l <= Len(Trace) /\ ~ENABLED TNext
Report ==
    /\ (~Stuck \/ PrintT("@@W " \o ToJson([clause |-> "c14.solver-step", step |-> l, ev |-> Trace[l],
                                          wl |-> wl, phase |-> phase]) \o " W@@"))
    /\ (l # Len(Trace) + 1 \/ PrintT("@@T " \o ToJson([len |-> l - 1]) \o " T@@"))
=============================================================================
