------------------------------- MODULE GroupGen -------------------------------
(* Group configurations for C13, drawn by the Wichmann-Hill generator: 1-3 transactions over a pool of *)
(* NPool contracts, transaction types, distinct absolute indices (or none), relative offsets.           *)
EXTENDS Prng, Json, TLC
CONSTANTS Seed, NCfg, NPool

Types == << "txn", "pay", "axfer", "appl" >>
Offs  == << -2, -1, 1, 2 >>
CfgOf(k) ==
    LET n == 1 + RndS(Seed, k, 11, 1, 3)
        absMode == RndS(Seed, k, 11, 2, 4)             \* 0: none have one, 1: all consecutive from 0, 2: first only, 3: reversed
        tx(j) == LET absj == CASE absMode = 0 -> -1 [] absMode = 1 -> j - 1 [] absMode = 2 -> (IF j = 1 THEN 0 ELSE -1)
                                [] absMode = 3 -> n - j
                     relTo == 1 + RndS(Seed, k, 11, 10 * j + 3, n)
                     hasRel == n > 1 /\ relTo # j /\ RndS(Seed, k, 11, 10 * j + 4, 2) = 1
                 IN [c |-> 1 + RndS(Seed, k, 11, 10 * j + 1, NPool), typ |-> Types[1 + RndS(Seed, k, 11, 10 * j + 2, 4)],
                     abs |-> absj,
                     rel |-> IF hasRel THEN << [to |-> relTo, off |-> Offs[1 + RndS(Seed, k, 11, 10 * j + 5, 4)]] >> ELSE << >>]
    IN [k |-> k, txs |-> [j \in 1..n |-> tx(j)]]

VARIABLE j
Init == j = 1
Next == j' \in {2 * j, 2 * j + 1} /\ j' <= NCfg
Emit == j > NCfg \/ PrintT("@@G " \o ToJson(CfgOf(j)) \o " G@@")
=============================================================================
