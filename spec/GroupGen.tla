------------------------------- MODULE GroupGen -------------------------------
(* Group configurations for C13, drawn by the Wichmann-Hill generator: 1-3 transactions over a pool of *)
(* NPool contracts, transaction types, distinct absolute indices (or none), relative offsets.           *)
(* The second half of the numbers is directed at the clearing rule for relative offsets: a target       *)
(* transaction, a member running one of the pool contracts that check "the transaction at my index +    *)
(* off" (RelCheckers, a sequence of [c, off]) which declares the target at exactly that offset, and a    *)
(* third member that declares the same target at another offset, in every order of the three.           *)
EXTENDS Prng, Json, TLC
CONSTANTS Seed, NCfg, NPool, RelCheckers

Types == << "txn", "pay", "axfer", "appl" >>
Offs  == << -2, -1, 1, 2 >>
CfgOf(k) ==
    LET n == 1 + RndS(Seed, k, 11, 1, 3)
        absMode == RndS(Seed, k, 11, 2, 4)             \* 0: none have one, 1: all consecutive from 0, 2: first only, 3: reversed
        tx(j) == LET absj == CASE absMode = 0 -> -1 [] absMode = 1 -> j - 1 [] absMode = 2 -> (IF j = 1 THEN 0 ELSE -1)
                                [] absMode = 3 -> n - j
                     relTo == 1 + RndS(Seed, k, 11, 10 * j + 3, n)
                     hasRel == n > 1 /\ relTo # j /\ RndS(Seed, k, 11, 10 * j + 4, 2) = 1
                 IN [c |-> 1 + RndS(Seed, k, 11, 10 * j + 1, NPool), typ |-> Types[1 + RndS(Seed, k, 11, 10 * j + 2, 4)],
                     abs |-> absj,
                     rel |-> IF hasRel THEN << [to |-> relTo, off |-> Offs[1 + RndS(Seed, k, 11, 10 * j + 5, 4)]] >> ELSE << >>]
    IN [k |-> k, txs |-> [j \in 1..n |-> tx(j)]]

Perm3 == << << 1, 2, 3 >>, << 1, 3, 2 >>, << 2, 1, 3 >>, << 2, 3, 1 >>, << 3, 1, 2 >>, << 3, 2, 1 >> >>
(* roles: 1 target, 2 checker, 3 other declarer; pos[r] = position of role r *)
Directed(k) ==
    LET pos == Perm3[1 + RndS(Seed, k, 12, 1, 6)]
        rc  == RelCheckers[1 + RndS(Seed, k, 12, 2, Len(RelCheckers))]
        n   == IF RndS(Seed, k, 12, 3, 4) = 0 THEN 2 ELSE 3          \* sometimes without the third member
        pp  == IF n = 3 THEN pos ELSE (IF pos[1] < pos[2] THEN << 1, 2, 3 >> ELSE << 2, 1, 3 >>)
        typ(i) == Types[1 + RndS(Seed, k, 12, 10 + i, 4)]
        role(j) == CHOOSE r \in 1..3 : pp[r] = j
        \* absolute indices (consistent with the checker's offset): 0 none, 1 the target only, 2 target and checker
        am  == RndS(Seed, k, 12, 7, 3)
        tabs == IF am = 0 THEN -1 ELSE IF rc.off > 0 THEN rc.off ELSE 0
        cabs == IF am # 2 THEN -1 ELSE IF rc.off > 0 THEN 0 ELSE 0 - rc.off
        tx(j) == CASE role(j) = 1 -> [c |-> 1 + RndS(Seed, k, 12, 4, NPool), typ |-> typ(1), abs |-> tabs, rel |-> << >>]
                   [] role(j) = 2 -> [c |-> rc.c, typ |-> typ(2), abs |-> cabs, rel |-> << [to |-> pp[1], off |-> rc.off] >>]
                   [] role(j) = 3 -> [c |-> 1 + RndS(Seed, k, 12, 5, NPool), typ |-> typ(3), abs |-> -1,
                                      rel |-> << [to |-> pp[1], off |-> Offs[1 + RndS(Seed, k, 12, 6, 4)]] >>]
    IN [k |-> k, txs |-> [j \in 1..n |-> tx(j)]]
CaseOf(k) == IF 2 * k > NCfg /\ Len(RelCheckers) > 0 THEN Directed(k) ELSE CfgOf(k)

VARIABLE j
Init == j = 1
Next == j' \in {2 * j, 2 * j + 1} /\ j' <= NCfg
Emit == j > NCfg \/ PrintT("@@G " \o ToJson(CaseOf(j)) \o " G@@")
=============================================================================
