----------------------------- MODULE PathReach -----------------------------
(***************************************************************************)
(* Interprocedural reachability over the graph of Cfg.tla restricted to a  *)
(* set of "good" blocks: is there a valid path (calls matched with their   *)
(* returns) from the entry to a block where execution can terminate, all   *)
(* of whose blocks are good?  Computed with subroutine summaries           *)
(* (canReturn / canFinish), iterated from FALSE four times - enough for    *)
(* call nesting of depth three.  Not recursive (see the note in Teal.tla). *)
(***************************************************************************)
EXTENDS Cfg

Regions(G) == [nm \in G.subNames \cup {"__main__"} |->
                 IF nm = "__main__" THEN [entry |-> 0, bs |-> G.mainBlocks]
                 ELSE [entry |-> G.subEntry[nm], bs |-> G.subBlocks[nm]]]

SummaryRound(G, P, good, canRet, canAcc) ==
    LET regions == Regions(G) IN
    [nm \in DOMAIN regions |->
       LET R == regions[nm]
           step == TLCEval([b \in R.bs |->
                      IF ~good[b] THEN {}
                      ELSE IF IsCallBlock(G, P, b)
                           THEN (IF canRet[Callee(G, P, b)] /\ ReturnPoint(G, b) # -1 THEN { ReturnPoint(G, b) } ELSE {})
                           ELSE SuccSet(G, b)])
           reach == IF good[R.entry] THEN ReachSets(R.bs, step)[R.entry] ELSE {}
       IN [ret |-> \E b \in reach : good[b] /\ IsRetsubBlock(G, P, b),
           acc |-> \E b \in reach : good[b] /\ (IsLeaf(G, P, b)
                                                \/ (IsCallBlock(G, P, b) /\ canAcc[Callee(G, P, b)]))]]

(* good: function from block ids to BOOLEAN *)
CanFinish(G, P, good) ==
    LET names == DOMAIN Regions(G)
        z  == [nm \in names |-> FALSE]
        r1 == SummaryRound(G, P, good, z, z)
        r2 == SummaryRound(G, P, good, [nm \in names |-> r1[nm].ret], [nm \in names |-> r1[nm].acc])
        r3 == SummaryRound(G, P, good, [nm \in names |-> r2[nm].ret], [nm \in names |-> r2[nm].acc])
        r4 == SummaryRound(G, P, good, [nm \in names |-> r3[nm].ret], [nm \in names |-> r3[nm].acc])
    IN r4["__main__"].acc

(* some subroutine can (transitively) call itself *)
HasRecursion(G, P) ==
    LET names == G.subNames
        calls == TLCEval([nm \in names |-> { Callee(G, P, b) : b \in { c \in G.subBlocks[nm] : IsCallBlock(G, P, c) } }])
        step1 == ReachSets(names, calls)
    IN \E nm \in names : \E t \in calls[nm] : nm \in step1[t]
=============================================================================
