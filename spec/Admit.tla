-------------------------------- MODULE Admit --------------------------------
(* What a recorded per-block context must admit for a concrete transaction (C07-C10). *)
EXTENDS Reps

(* What a recorded context must admit *)
AddrName(a) == CASE a = 1 -> "A1" [] a = 2 -> "A2" [] a = 3 -> "A3" [] a = CREATOR -> "CREATOR_ADDRESS"
                 [] OTHER -> "<fresh>"
AddrOK(av, a) == a = ZEROADDR \/ av.any \/ AddrName(a) \in SeqToSet(av.poss)
KindsOK(c, t) == LET ks == SeqToSet(c.kinds) IN
    /\ (t.te = 6 /\ t.oc = 4 => "ApplUpdateApplication" \in ks)
    /\ (t.te = 6 /\ t.oc = 5 => "ApplDeleteApplication" \in ks)
    /\ (t.te = 1 => "Pay" \in ks)
    /\ (t.te = 4 => "Axfer" \in ks)
FeeOK(c, t) == c.feeunk \/ t.fee <= c.fee

(* clause ids violated by context record c for transaction t; pre = "c07" etc. is added by the caller *)
Inadmissible(c, t) ==
       (IF KindsOK(c, t) THEN {} ELSE {"kinds"})
  \cup (IF AddrOK(c.rekey, t.rekey) THEN {} ELSE {"addr.RekeyTo"})
  \cup (IF AddrOK(c.close, t.close) THEN {} ELSE {"addr.CloseRemainderTo"})
  \cup (IF AddrOK(c.aclose, t.aclose) THEN {} ELSE {"addr.AssetCloseTo"})
  \cup (IF AddrOK(c.sender, t.snd) THEN {} ELSE {"addr.Sender"})
  \cup (IF FeeOK(c, t) THEN {} ELSE {"fee"})

PropOf(x) == CASE x = "kinds" -> "c07.sound" [] x = "fee" -> "c09.sound" [] OTHER -> "c08.sound"
=============================================================================
