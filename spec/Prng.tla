-------------------------------- MODULE Prng --------------------------------
(* Three-stream Wichmann-Hill generator; every intermediate value < 2^31.   *)
(* Rnd(seed, k, salt, i, r) = the i-th digit of case k of family salt, in radix r. *)
EXTENDS Integers, Sequences
WH(s) == << (171 * s[1]) % 30269, (172 * s[2]) % 30307, (170 * s[3]) % 30323 >>
WH0(seed, k, salt) == << 1 + (((seed % 1000) * 7919 + k * 10007 + salt * 13) % 30268),
                         1 + (((seed % 1000) * 31 + k * 17 + salt * 101 + 5) % 30306),
                         1 + (((seed % 1000) + k * 3 + salt * 7 + 11) % 30322) >>
RECURSIVE WHn(_, _)
WHn(s, n) == IF n = 0 THEN s ELSE WHn(WH(s), n - 1)
RndS(seed, k, salt, i, r) == LET s == WHn(WH0(seed, k, salt), i + 2) IN (s[1] + s[2] + s[3]) % r
=============================================================================
