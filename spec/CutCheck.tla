------------------------------- MODULE CutCheck -------------------------------
(***************************************************************************)
(* C12: the function the REAL tool builds for a dispatch path [B0..Bk].    *)
(* Static clauses (the initial state of each behaviour):                   *)
(*   the function's graph is the contract's main graph in which, for every *)
(*   i < k, each successor of Bi other than B(i+1) is replaced by an error *)
(*   block; it shares the subroutines it can call; ids, lines and text are *)
(*   those of the contract; building it leaves the contract's own graph    *)
(*   unchanged; its contexts do not depend on which other functions were   *)
(*   built before it.                                                      *)
(* Dynamic clauses: TLC runs the Avm machine over the input space; every   *)
(*   accepting execution whose sequence of entered blocks STARTS WITH the  *)
(*   path must be admitted by the function's recorded contexts (C06-C09    *)
(*   soundness with respect to exactly those executions).                  *)
(***************************************************************************)
EXTENDS Admit, Json, IOUtils, TLC, SequencesExt

Data  == JsonDeserialize(IOEnv.OBS_FILE)
Cases == Data.cases
N     == Len(Cases)
ST    == [p \in 1..N |-> Static(Cases[p].prog)]
RD    == [p \in 1..N |-> ReadsOwn(Cases[p].prog) \cup ReadsGroup(Cases[p].prog)]
EnvTable == [p \in 1..N |-> IF Cases[p].obs.ok THEN SetToSeq(Envs(Cases[p].prog, ST[p].isApp)) ELSE << >>]

ErrId(t) == t * 65536 + t

(* what the function graph must be *)
Cut(P, G, path) ==
    LET k == Len(path)
        onPath(b) == { i \in 1..(k - 1) : path[i] = b }
        nextOf == TLCEval([b \in G.ids |->
                     IF onPath(b) = {} THEN G.succ[b]
                     ELSE LET i == CHOOSE x \in onPath(b) : TRUE IN
                          [j \in 1..Len(G.succ[b]) |-> IF G.succ[b][j] = path[i + 1] THEN path[i + 1] ELSE ErrId(G.succ[b][j])]])
        step == TLCEval([b \in G.ids |-> { t \in SeqToSet(nextOf[b]) : t \in G.ids }])
        mainCut == ReachSets(G.ids, step)[path[1]]
        calls(S) == { Callee(G, P, b) : b \in { c \in S : IsCallBlock(G, P, c) } }
        s1 == calls(mainCut)
        s2 == s1 \cup calls(UNION { G.subBlocks[nm] : nm \in s1 })
        s3 == s2 \cup calls(UNION { G.subBlocks[nm] : nm \in s2 })
        s4 == s3 \cup calls(UNION { G.subBlocks[nm] : nm \in s3 })
    IN [ nextOf |-> nextOf, main |-> mainCut, subs |-> s4,
         blocks |-> mainCut \cup UNION { G.subBlocks[nm] : nm \in s4 },
         errs |-> { t \in UNION { SeqToSet(nextOf[b]) : b \in mainCut } : t \notin G.ids } ]

V(ok, clause, det, b, obs, exp) ==
    IF ok THEN << >> ELSE << [clause |-> clause, det |-> det, b |-> b, obs |-> ToJson(obs), exp |-> ToJson(exp)] >>
ForEach(S, F(_)) == LET ss == SortedSeq(S) IN Cat([i \in 1..Len(ss) |-> F(ss[i])])

StaticAlarms(c) ==
    LET P == c.prog
        O == c.obs
        G == Graph(P)
        X == Cut(P, G, c.path)
        real == { i \in 1..Len(O.fblocks) : ~O.fblocks[i].iserr }
        errs == { i \in 1..Len(O.fblocks) : O.fblocks[i].iserr }
        ids == { O.fblocks[i].id : i \in real }
        blk(b) == O.fblocks[CHOOSE i \in real : O.fblocks[i].id = b]
    IN
       V(ids = X.blocks /\ Cardinality(real) = Cardinality(X.blocks), "c12.blocks", "", -1, SortedSeq(ids), SortedSeq(X.blocks))
    \o V({ O.fblocks[i].id : i \in errs } = X.errs, "c12.err-blocks", "", -1, { O.fblocks[i].id : i \in errs }, X.errs)
    \o V(O.fentry = c.path[1], "c12.entry", "", -1, O.fentry, c.path[1])
    \o ForEach(ids \cap X.blocks, LAMBDA b :
          V(blk(b).lines = BlockLines(G, b), "c12.lines", "", b, blk(b).lines, BlockLines(G, b))
       \o V(blk(b).next = X.nextOf[b], "c12.next", "", b, blk(b).next, X.nextOf[b])
       \o V(blk(b).text = O.text_of[ToString(b)], "c12.text", "", b, blk(b).text, O.text_of[ToString(b)]))
    \o Cat([k \in 1..Len(O.fblocks) |->
              IF ~O.fblocks[k].iserr THEN << >>
              ELSE V(O.fblocks[k].next = << >> /\ Len(O.fblocks[k].prev) = 1 /\ Len(O.fblocks[k].lines) = 1, "c12.err-shape", "",
                     O.fblocks[k].id, O.fblocks[k], "one instruction, one predecessor, no successor")])
    \o V(O.bbs_before = O.bbs_after, "c12.contract-graph-changed", "", -1, O.bbs_after, O.bbs_before)
    \o V(O.same_alone, "c12.depends-on-other-functions", "", -1, O.diff_alone, "equal contexts")
    \* the same path named as a function of a group configuration (together with all other paths of the program):
    \* init_tealer_from_config must build the function construct_function builds for that path alone
    \o V(O.via.ok, "c12.config-function", "", -1, O.via.exc, "the configuration is built")
    \o (IF ~O.via.ok THEN << >>
        ELSE V(O.via.shape = O.direct.shape /\ O.via.name = O.direct.name, "c12.config-function", "shape", -1,
               << O.via.name, O.via.shape >>, << O.direct.name, O.direct.shape >>)
          \o V(O.via.ctx = O.direct.ctx, "c12.config-function", "contexts", -1, "contexts differ", "equal contexts"))

VARIABLES pid, ei, m
vars == << pid, ei, m >>
Init == /\ pid \in 1..N /\ Cases[pid].obs.ok
        /\ ei \in 0..Len(EnvTable[pid])                  \* 0: the state that judges the static clauses
        /\ m = InitMachine(ST[pid])
Next == /\ ei > 0 /\ m.status = "run"
        /\ m' = Step(Cases[pid].prog, ST[pid], EnvTable[pid][ei], m)
        /\ UNCHANGED << pid, ei >>


DynAlarms(c, e, mm) ==
    LET O == c.obs
        vs == VariantsRd(RD[pid], ST[pid].isApp, e)
        bs == SortedSeq({ b \in mm.visited : ToString(b) \in DOMAIN O.ctx })
        missing == mm.visited \ { b \in mm.visited : ToString(b) \in DOMAIN O.ctx }
    IN V(missing = {}, "c12.executed-block-not-in-function", "", -1, missing, {})
    \o Cat([i \in 1..Len(bs) |->
          LET cx == O.ctx[ToString(bs[i])]
              bad == UNION { Inadmissible(cx, v.tx[v.idx]) : v \in vs }
          IN V(e.size \in SeqToSet(cx.sizes), "c12.sound.size", "", bs[i], cx.sizes, e.size)
          \o V(e.idx \in SeqToSet(cx.indices), "c12.sound.index", "", bs[i], cx.indices, e.idx)
          \o V(bad = {}, "c12.sound.fields", "", bs[i], bad, {})])

ASSUME TLCSet(1, {})
Report ==
    LET c == Cases[pid]
        as == IF ei = 0 THEN StaticAlarms(c)
              \* (the function of path [B0] is the one ProgCheck already judges for C06-C10)
              ELSE IF m.status = "acc" /\ Len(c.path) > 1 /\ Len(c.path) <= TrailCap /\ IsPrefix(c.path, m.trail)
              THEN DynAlarms(c, EnvTable[pid][ei], m) ELSE << >>
    IN /\ \A i \in 1..Len(as) :
             LET key == << pid, as[i].clause, as[i].b >> IN
             key \in TLCGet(1) \/
             (TLCSet(1, TLCGet(1) \cup {key}) /\
              PrintT("@@W " \o ToJson([pid |-> c.pid, clause |-> as[i].clause, det |-> as[i].det, b |-> as[i].b,
                                      obs |-> as[i].obs, exp |-> as[i].exp]) \o " W@@"))
       /\ (ei # 0 \/ PrintT("@@S " \o ToJson([pid |-> c.pid]) \o " S@@"))
       /\ (ei = 0 \/ m.status # "acc" \/ ~IsPrefix(c.path, m.trail) \/ << pid, "acc" >> \in TLCGet(1)
             \/ (TLCSet(1, TLCGet(1) \cup {<< pid, "acc" >>}) /\ PrintT("@@A " \o ToJson([pid |-> c.pid]) \o " A@@")))
=============================================================================
