----------------------------- MODULE ProgCheck -----------------------------
(***************************************************************************)
(* Layer B umbrella (C01, C04 dynamic part, C06-C10 soundness).            *)
(*                                                                         *)
(* For every generated program TLC explores ALL executions of the Avm      *)
(* machine over the representative input space Reps!Envs, with the real    *)
(* tool's recorded results (OBS_FILE) bound in.  Every state is judged:    *)
(*  - each step must be a walk in the OBSERVED graph (C04);                *)
(*  - in every accepting state, the observed per-block contexts of the     *)
(*    visited blocks must admit the concrete group (C06-C10), and every    *)
(*    detector whose dangerous value is carried must have reported a path  *)
(*    (C01).                                                               *)
(* A violated clause prints one witness line (de-duplicated per worker by  *)
(* program / clause / block) and TLC continues, so one run classifies the  *)
(* whole corpus.                                                           *)
(***************************************************************************)
EXTENDS Admit, Json, IOUtils, TLC, SequencesExt

Data  == JsonDeserialize(IOEnv.OBS_FILE)
Cases == Data.cases
N     == Len(Cases)

Prog(p) == Cases[p].prog
Obs(p)  == Cases[p].obs
ST      == [p \in 1..N |-> Static(Cases[p].prog)]
(* the input space of each program, tabulated once; states carry an index into it *)
EnvTable == [p \in 1..N |-> IF Cases[p].obs.ok THEN SetToSeq(Envs(Cases[p].prog, ST[p].isApp)) ELSE << >>]
RD      == [p \in 1..N |-> ReadsOwn(Cases[p].prog) \cup ReadsGroup(Cases[p].prog)]

(* per line: the observed function block that contains it, and whether it is its first / last line *)
LineInfo ==
    [p \in 1..N |->
       [i \in 1..Len(Cases[p].prog) |->
          LET fb == Cases[p].obs.fblocks
              hit == { k \in 1..Len(fb) : i \in SeqToSet(fb[k].lines) }
          IN IF hit = {} THEN [k |-> 0, id |-> -1, first |-> FALSE, last |-> FALSE]
             ELSE LET k == CHOOSE x \in hit : TRUE
                  IN [k |-> k, id |-> fb[k].id, first |-> fb[k].lines[1] = i,
                      last |-> fb[k].lines[Len(fb[k].lines)] = i] ] ]

VARIABLES pid, ei, m, walk         \* ei: index of the input group in EnvTable[pid]
vars == << pid, ei, m, walk >>

-----------------------------------------------------------------------------
(* C04, dynamic part: the step from pc to pc' is an edge of the observed graph *)
WalkClause(p, mo, mn) ==
    LET P  == Prog(p)
        O  == Obs(p)
        a  == mo.pc
        b  == mn.pc
    IN
    IF mn.status # "run" \/ b > Len(P) \/ a > Len(P) THEN ""
    ELSE LET la == LineInfo[p][a]
             lb == LineInfo[p][b]
         IN
         IF la.id = -1 \/ lb.id = -1 THEN "c04.walk.outside-graph"
         ELSE IF la.k = lb.k /\ b = a + 1 THEN ""
         ELSE IF ~la.last THEN "c04.walk.left-mid-block"
         ELSE IF ~lb.first THEN "c04.walk.entered-mid-block"
         ELSE LET src == O.fblocks[la.k] IN
              IF P[a].op = "callsub"
              THEN IF src.iscall /\ \E s \in 1..Len(O.subs) : O.subs[s].name = src.callee /\ O.subs[s].entry = lb.id
                   THEN "" ELSE "c04.walk.call-edge"
              ELSE IF P[a].op = "retsub"
              THEN LET lc == LineInfo[p][mo.frames[Len(mo.frames)]]
                   IN IF lc.id # -1 /\ O.fblocks[lc.k].retpt = lb.id THEN "" ELSE "c04.walk.return-edge"
              ELSE IF lb.id \in SeqToSet(src.next) THEN "" ELSE "c04.walk.edge"

-----------------------------------------------------------------------------
(* transactions standing for "any member nobody constrains" *)
ArbitraryTxs ==
    { [DefaultTx EXCEPT !.te = k.te, !.oc = k.oc, !.appid = k.appid, !.fee = 272001, !.snd = ATTACKER,
                        !.rekey = ATTACKER,
                        !.close = IF k.te = 1 THEN ATTACKER ELSE ZEROADDR,
                        !.aclose = IF k.te = 4 THEN ATTACKER ELSE ZEROADDR] : k \in FewKinds(FALSE) }

RelSlot(k) == IF k < 0 THEN k + 16 ELSE k + 15          \* position of offset k in the R table (1-based)

-----------------------------------------------------------------------------
(* C01: dangerous values per detector *)
Detectors == << "rekey-to", "can-close-account", "can-close-asset", "missing-fee-check", "is-updatable",
                "is-deletable", "unprotected-updatable", "unprotected-deletable", "group-size-check" >>
Dangerous(d, e, usedAbs) ==
    LET t == e.tx[e.idx] IN
    CASE d = "rekey-to"              -> t.rekey = ATTACKER
      [] d = "can-close-account"     -> t.te = 1 /\ t.close = ATTACKER
      [] d = "can-close-asset"       -> t.te = 4 /\ t.aclose = ATTACKER
      [] d = "missing-fee-check"     -> t.fee > 272000
      [] d = "is-updatable"          -> t.te = 6 /\ t.oc = 4
      [] d = "is-deletable"          -> t.te = 6 /\ t.oc = 5
      [] d = "unprotected-updatable" -> t.te = 6 /\ t.oc = 4 /\ t.snd = ATTACKER
      [] d = "unprotected-deletable" -> t.te = 6 /\ t.oc = 5 /\ t.snd = ATTACKER
      [] d = "group-size-check"      -> e.size = 16 /\ usedAbs

-----------------------------------------------------------------------------
(* all alarms of an accepting state, as a sequence of [clause, det, b, obs] *)
Alarm(clause, det, b, obs) == << [clause |-> clause, det |-> det, b |-> b, obs |-> ToJson(obs)] >>

AccAlarms(p, e, mm) ==
    LET P == Prog(p)
        O == Obs(p)
        S == ST[p]
        vs == VariantsRd(RD[p], S.isApp, e)
        blocks == SortedSeq(mm.visited)
        hasCtx(b) == ToString(b) \in DOMAIN O.ctx
        perBlock(b) ==
            IF ~hasCtx(b) THEN Alarm("c04.block-missing", "", b, "no context recorded for an executed block")
            ELSE
            LET c == O.ctx[ToString(b)]
                sub(tbl, slot) == c.pool[tbl[slot]]
                ownBad == UNION { Inadmissible(c, v.tx[v.idx]) : v \in vs }
                gtxBad == UNION { Inadmissible(sub(c.G, e.idx + 1), v.tx[v.idx]) : v \in vs }
                (* members nobody looks at may be anything: their (pooled) sub-contexts must admit every
                   representative transaction *)
                freeAbs == { c.A[i + 1] : i \in { j \in 0..(e.size - 1) : j \notin DOMAIN e.tx } }
                freeRel == { c.R[RelSlot(k)] : k \in { d \in -15..15 : d # 0 /\ e.idx + d >= 0 /\ e.idx + d < e.size
                                                                        /\ (e.idx + d) \notin DOMAIN e.tx } }
                absBad == UNION { UNION { Inadmissible(sub(c.A, e.idx + 1), v.tx[v.idx]) : v \in vs } }
                          \cup UNION { Inadmissible(sub(c.A, i + 1), e.tx[i]) : i \in (DOMAIN e.tx) \ {e.idx} }
                          \cup UNION { UNION { Inadmissible(c.pool[k], t) : t \in ArbitraryTxs } : k \in freeAbs }
                relBad == UNION { Inadmissible(sub(c.R, RelSlot(j - e.idx)), e.tx[j]) : j \in (DOMAIN e.tx) \ {e.idx} }
                          \cup UNION { UNION { Inadmissible(c.pool[k], t) : t \in ArbitraryTxs } : k \in freeRel }
            IN (IF e.size \in SeqToSet(c.sizes) THEN << >> ELSE Alarm("c06.sound.size", "", b, c.sizes))
            \o (IF e.idx \in SeqToSet(c.indices) THEN << >> ELSE Alarm("c06.sound.index", "", b, c.indices))
            \o Cat([i \in 1..Len(SetToSeq(ownBad)) |->
                     Alarm(PropOf(SetToSeq(ownBad)[i]), SetToSeq(ownBad)[i], b, "own context")])
            \o Cat([i \in 1..Len(SetToSeq(gtxBad)) |->
                     Alarm("c10.gtxn-at-own-index", SetToSeq(gtxBad)[i], b, e.idx)])
            \o Cat([i \in 1..Len(SetToSeq(absBad)) |->
                     Alarm("c10.absolute", SetToSeq(absBad)[i], b, "absolute context")])
            \o Cat([i \in 1..Len(SetToSeq(relBad)) |->
                     Alarm("c10.relative", SetToSeq(relBad)[i], b, "relative context")])
        missed == SelectSeq(Detectors, LAMBDA d :
                     /\ O.det[d].paths = << >>
                     /\ \E v \in vs : Dangerous(d, v, mm.usedAbs))
    IN  Cat([i \in 1..Len(blocks) |-> perBlock(blocks[i])])
     \o Cat([i \in 1..Len(missed) |-> Alarm("c01.miss", missed[i], -1, "no path reported")])

-----------------------------------------------------------------------------
ASSUME TLCSet(1, {})          \* per-worker set of already printed (pid, clause, det, block)
ASSUME TLCSet(2, {})          \* per-worker set of programs with an accepting run
ASSUME TLCSet(3, {})          \* per-worker set of <<pid, detector>> with an accepting dangerous run

Emit(c, env_, a) ==
    LET key == << c.pid, a.clause, a.det, a.b >> IN
    IF key \in TLCGet(1) THEN TRUE
    ELSE /\ TLCSet(1, TLCGet(1) \cup {key})
         /\ PrintT("@@W " \o ToJson([pid |-> c.pid, clause |-> a.clause, det |-> a.det, b |-> a.b, obs |-> a.obs,
                                    env |-> [size |-> env_.size, idx |-> env_.idx, tx |-> ToJson(env_.tx)]]) \o " W@@")

Init == /\ pid \in 1..N
        /\ Obs(pid).ok
        /\ ei \in 1..Len(EnvTable[pid])
        /\ m = InitMachine(ST[pid])
        /\ walk = ""

Next == /\ m.status = "run"
        /\ m' = Step(Prog(pid), ST[pid], EnvTable[pid][ei], m)
        /\ walk' = IF walk # "" THEN walk ELSE WalkClause(pid, m, m')
        /\ UNCHANGED << pid, ei >>

NoNext == FALSE /\ UNCHANGED vars        \* (timing experiments: initial states only)

Report ==
    LET c == Cases[pid]
        env == EnvTable[pid][ei]
    IN
    /\ (walk = "" \/ m.status = "rej"
           \/ Emit(c, env, [clause |-> walk, det |-> "", b |-> ST[pid].G.blockOf[IF m.pc > Len(c.prog) THEN Len(c.prog) ELSE m.pc],
                            obs |-> ToJson(m.pc)]))
    /\ (m.status # "unmodelled"
           \/ Emit(c, env, [clause |-> "machinery." \o m.status, det |-> "", b |-> -1, obs |-> ToJson(m.pc)]))
    /\ (m.status # "acc" \/
           LET as == AccAlarms(pid, env, m) IN
           /\ \A i \in 1..Len(as) : Emit(c, env, as[i])
           /\ (pid \in TLCGet(2)
                  \/ (TLCSet(2, TLCGet(2) \cup {pid}) /\ PrintT("@@A " \o ToJson([pid |-> c.pid]) \o " A@@")))
           /\ \A i \in 1..Len(Detectors) :
                 LET d == Detectors[i] IN
                 (<< pid, d >> \in TLCGet(3)
                    \/ ~(\E v \in VariantsRd(RD[pid], ST[pid].isApp, env) : Dangerous(d, v, m.usedAbs))
                    \/ (TLCSet(3, TLCGet(3) \cup {<< pid, d >>})
                        /\ PrintT("@@D " \o ToJson([pid |-> c.pid, det |-> d]) \o " D@@"))))
=============================================================================
