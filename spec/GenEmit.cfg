INIT Init
NEXT Next
INVARIANT Emit
CHECK_DEADLOCK FALSE
CONSTANTS
  Seed = 1
  Family = "f1"
  NRandom = 300
  WithSentinels = TRUE
