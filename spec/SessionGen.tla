------------------------------ MODULE SessionGen ------------------------------
(* Histories (action sequences) of the Session specification up to MaxLen actions, sampled by the  *)
(* Wichmann-Hill generator (quick) or enumerated completely (All = TRUE).       *)
EXTENDS Prng, Json, TLC
CONSTANTS NContracts, NOrders, Seed, NHist, MaxLen, All

ActionOf(k, i) ==
    LET r == RndS(Seed, k, 9, 3 * i, 5) IN
    IF i > 1 /\ r = 0 THEN [kind |-> "rerun", c |-> 0, o |-> 0]
    ELSE [kind |-> "analyse", c |-> 1 + RndS(Seed, k, 9, 3 * i + 1, NContracts), o |-> 1 + RndS(Seed, k, 9, 3 * i + 2, NOrders)]
HistOf(k) == [i \in 1..(1 + RndS(Seed, k, 9, 1, MaxLen)) |-> ActionOf(k, i)]

VARIABLE j
GInit == j = 1
GNext == j' \in {2 * j, 2 * j + 1} /\ j' <= NHist
Emit == j > NHist \/ PrintT("@@H " \o ToJson([k |-> j, hist |-> HistOf(j)]) \o " H@@")
=============================================================================
