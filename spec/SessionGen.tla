------------------------------ MODULE SessionGen ------------------------------
(* Histories (action sequences) of the Session specification up to MaxLen actions, sampled by the  *)
(* Wichmann-Hill generator (quick) or enumerated completely (All = TRUE).       *)
EXTENDS Prng, Json, TLC
CONSTANTS NContracts, NOrders, Seed, NHist, MaxLen, All

ActionOf(k, i) ==
    LET r == RndS(Seed, k, 9, 3 * i, 5) IN
    IF i > 1 /\ r = 0 THEN [kind |-> "rerun", c |-> 0, o |-> 0]
    ELSE [kind |-> "analyse", c |-> 1 + RndS(Seed, k, 9, 3 * i + 1, NContracts), o |-> 1 + RndS(Seed, k, 9, 3 * i + 2, NOrders)]
RandomHist(k) == [i \in 1..(1 + RndS(Seed, k, 9, 1, MaxLen)) |-> ActionOf(k, i)]
(* the first NContracts * (NContracts - 1) histories are all ORDERED PAIRS of different contracts (analyse a, then b):
   every contract is analysed after every other one at least once; the detector order rotates *)
NPairs == NContracts * (NContracts - 1)
PairHist(k) == LET a == 1 + ((k - 1) \div (NContracts - 1))
                   r == 1 + ((k - 1) % (NContracts - 1))
                   b == IF r >= a THEN r + 1 ELSE r
               IN << [kind |-> "analyse", c |-> a, o |-> 1 + (k % NOrders)], [kind |-> "analyse", c |-> b, o |-> 1 + ((k + 1) % NOrders)] >>
HistOf(k) == IF k <= NPairs THEN PairHist(k) ELSE RandomHist(k - NPairs)

VARIABLE j
GInit == j = 1
GNext == j' \in {2 * j, 2 * j + 1} /\ j' <= NHist + NPairs
Emit == j > NHist + NPairs \/ PrintT("@@H " \o ToJson([k |-> j, hist |-> HistOf(j)]) \o " H@@")
=============================================================================
