-------------------------------- MODULE Group --------------------------------
(***************************************************************************)
(* C13: group configurations and the verdict the properties prescribe.     *)
(* A configuration is a sequence of transactions                           *)
(*   [c (contract index), typ, abs (-1 = none), rel (sequence of           *)
(*    [to, off]: "transaction `to` sits at my index + off")]               *)
(* over a pool of contracts; each contract is a logic signature or an      *)
(* application according to its own mode.                                  *)
(*                                                                         *)
(* Verdict(d, t): t is reported vulnerable for detector d iff it is        *)
(* eligible and NOT cleared, where cleared means: its own contract         *)
(* excludes the dangerous value at every accepting exit (by the own        *)
(* context, or by the context recorded for "this transaction at index i" - *)
(* i the configured absolute index, else every possible own index), or     *)
(* some member's contract excludes it for "the transaction at absolute     *)
(* index abs(t)" at every exit, or a member that declares t at offset k    *)
(* excludes it for "the transaction at offset k" at every exit.            *)
(***************************************************************************)
EXTENDS Teal, TLC

DetectorNames == << "rekey-to", "can-close-account", "can-close-asset", "missing-fee-check", "is-updatable",
                    "is-deletable", "unprotected-updatable", "unprotected-deletable" >>
Stateless(d) == d \in { "rekey-to", "can-close-account", "can-close-asset", "missing-fee-check" }

Checks(d, c) ==
    LET ks == SeqToSet(c.kinds) IN
    CASE d = "rekey-to"              -> ~c.rekey.any
      [] d = "can-close-account"     -> ~(c.close.any /\ "Pay" \in ks)
      [] d = "can-close-asset"       -> ~(c.aclose.any /\ "Axfer" \in ks)
      [] d = "missing-fee-check"     -> c.feeunk \/ c.fee <= 272000
      [] d = "is-updatable"          -> "ApplUpdateApplication" \notin ks
      [] d = "is-deletable"          -> "ApplDeleteApplication" \notin ks
      [] d = "unprotected-updatable" -> ~("ApplUpdateApplication" \in ks /\ c.sender.any)
      [] d = "unprotected-deletable" -> ~("ApplDeleteApplication" \in ks /\ c.sender.any)

RelSlot(k) == IF k < 0 THEN k + 16 ELSE k + 15

(* leaves: sequence of the contract's leaf-block contexts (with pooled sub-contexts) *)
SelfChecks(leaves, d, abs) ==
    \A i \in 1..Len(leaves) :
       LET c == leaves[i] IN
       \/ Checks(d, c)
       \/ IF abs # -1 THEN Checks(d, c.pool[c.G[abs + 1]])
          ELSE \A j \in SeqToSet(c.indices) : Checks(d, c.pool[c.G[j + 1]])
AbsChecks(leaves, d, abs) == \A i \in 1..Len(leaves) : Checks(d, leaves[i].pool[leaves[i].A[abs + 1]])
RelChecks(leaves, d, off) == \A i \in 1..Len(leaves) : Checks(d, leaves[i].pool[leaves[i].R[RelSlot(off)]])

Eligible(d, t, isApp) ==
    /\ (Stateless(d) => ~isApp)                      \* needs a logic signature
    /\ (~Stateless(d) => isApp)                      \* needs an application
    /\ (d = "can-close-account" => t.typ \in { "txn", "pay" })
    /\ (d = "can-close-asset" => t.typ \in { "txn", "axfer" })

(* cfg: sequence of transactions; pool[c] = [isApp, leaves] *)
Vulnerable(cfg, pool, d, j) ==
    LET t == cfg[j]
        own == pool[t.c]
    IN /\ Eligible(d, t, own.isApp)
       /\ ~SelfChecks(own.leaves, d, t.abs)
       /\ ~(t.abs # -1 /\ \E k \in 1..Len(cfg) : AbsChecks(pool[cfg[k].c].leaves, d, t.abs))
       /\ ~(\E k \in 1..Len(cfg) : \E r \in 1..Len(cfg[k].rel) :
               cfg[k].rel[r].to = j /\ RelChecks(pool[cfg[k].c].leaves, d, cfg[k].rel[r].off))
=============================================================================
