-------------------------------- MODULE SeqGen --------------------------------
(***************************************************************************)
(* Straight-line programs over the WHOLE opcode table (C11(b), C19):       *)
(* `#pragma version v` (or none) followed by L lines drawn from            *)
(* LineGen!LineCases minus the control-flow opcodes, all in one block.     *)
(* Family "any": lines drawn uniformly; family "shuffle": only pushes and  *)
(* the stack-shuffling / multi-push opcodes, so positions get scrambled.   *)
(* One case in four is CUT: after the first `cut` lines `int 7; return`    *)
(* ends the program and the remaining lines are dead code - still          *)
(* assembled (version flags, run mode) but in no block of the graph.       *)
(* nlive = number of lines of the entry block.                             *)
(***************************************************************************)
EXTENDS LineGen, Prng, Json, SequencesExt
CONSTANTS Seed, NCases

ControlOps == { "b", "bz", "bnz", "callsub", "retsub", "return", "err", "switch", "match" }
SafeSeq == SetToSeq({ c \in LineCases : c.op \notin ControlOps })
ShuffleOps == { "dig", "cover", "uncover", "bury", "popn", "dupn", "dup", "dup2", "swap", "select", "pop", "frame_dig",
                "frame_bury", "pushints", "pushbytess", "mulw", "addw", "divmodw", "expw", "app_global_get_ex",
                "asset_holding_get", "box_get", "vrf_verify", "ecdsa_pk_decompress", "int", "txn", "global", "==", "<", "&&",
                "store", "load", "assert", "app_local_put", "stores" }
ShuffleSeq == SetToSeq({ c \in LineCases : c.op \in ShuffleOps })

SeqCase(k) ==
    LET fam == IF k % 2 = 0 THEN "any" ELSE "shuffle"
        pool == IF fam = "any" THEN SafeSeq ELSE ShuffleSeq
        v   == RndS(Seed, k, 7, 1, 9)                   \* 0: no pragma line
        len == 3 + RndS(Seed, k, 7, 2, 8)
        drawn == [i \in 1..len |-> pool[1 + RndS(Seed, k, 7, 2 + i, Len(pool))]]
        cut == IF RndS(Seed, k, 7, 20, 4) = 0 THEN 1 + RndS(Seed, k, 7, 21, len - 1) ELSE 0
        int7 == CHOOSE c \in LineCases : c.op = "int" /\ c.toks = << "7" >>
        ret  == CHOOSE c \in LineCases : c.op = "return"
        lines == IF cut = 0 THEN drawn ELSE SubSeq(drawn, 1, cut) \o << int7, ret >> \o SubSeq(drawn, cut + 1, len)
    IN [k |-> k, fam |-> fam, v |-> v, lines |-> lines, nlive |-> IF cut = 0 THEN len ELSE cut + 2]

VARIABLE j
Init == j = 1
Next == j' \in {2 * j, 2 * j + 1} /\ j' <= NCases
Emit == j > NCases \/ PrintT("@@P " \o ToJson(SeqCase(j)) \o " P@@")
=============================================================================
