-------------------------------- MODULE Avm --------------------------------
(***************************************************************************)
(* Concrete small-step semantics of the TEAL fragment named in the         *)
(* properties, on a concrete transaction group.  This machine exists       *)
(* nowhere in the repository: it is the oracle for "some transaction group *)
(* makes the contract terminate successfully" (C01, C04, C06-C10).         *)
(* The rules it commits to are listed in DESIGN.md, Appendix A.            *)
(*                                                                         *)
(* Values are <<type, payload, provenance>>:                               *)
(*   <<"u", n, "c"|"o">>  uint64 (n <= U64MAX, the 32-bit stand-in for     *)
(*                        2^64-1); "c" = pushed by a constant instruction  *)
(*   <<"b", id, "o">>     byte string, identified by a small integer       *)
(* Addresses: 0 zero address, 1..3 literals A1..A3, 10 the application's   *)
(* creator, 11 a fresh address no program names (the attacker).            *)
(***************************************************************************)
EXTENDS Cfg

U64MAX   == 2147483647
ZEROADDR == 0
CREATOR  == 10
ATTACKER == 11
AddrId(nm) == CASE nm = "ZERO" -> 0 [] nm = "A1" -> 1 [] nm = "A2" -> 2 [] nm = "A3" -> 3
ByteId(s)  == CASE s = "k" -> 1000 [] s = "x" -> 1001 [] s = "y" -> 1002 [] OTHER -> 1999

U(n)   == << "u", n, "o" >>
UC(n)  == << "u", n, "c" >>
Bv(id) == << "b", id, "o" >>
IsU(v) == v[1] = "u"
Bool(c) == IF c THEN U(1) ELSE U(0)

AddrFieldNames == { "Sender", "RekeyTo", "CloseRemainderTo", "AssetCloseTo" }
UintTxnFields  == { "Fee", "TypeEnum", "OnCompletion", "ApplicationID", "GroupIndex",
                    "FirstValid", "LastValid", "Amount", "AssetAmount" }

(* value of field f of the transaction record t sitting at group position pos *)
TxnField(t, f, pos) ==
    CASE f = "Fee"              -> U(t.fee)
      [] f = "TypeEnum"         -> U(t.te)
      [] f = "OnCompletion"     -> U(t.oc)
      [] f = "ApplicationID"    -> U(t.appid)
      [] f = "GroupIndex"       -> U(pos)
      [] f = "FirstValid"       -> U(t.fv)
      [] f = "LastValid"        -> U(t.lv)
      [] f = "Amount"           -> U(t.amt)
      [] f = "AssetAmount"      -> U(t.aamt)
      [] f = "Sender"           -> Bv(t.snd)
      [] f = "RekeyTo"          -> Bv(t.rekey)
      [] f = "CloseRemainderTo" -> Bv(t.close)
      [] f = "AssetCloseTo"     -> Bv(t.aclose)

GlobalField(env, f) ==
    CASE f = "GroupSize"      -> U(env.size)
      [] f = "ZeroAddress"    -> Bv(ZEROADDR)
      [] f = "CreatorAddress" -> Bv(CREATOR)
      [] f = "MinTxnFee"      -> U(1000)
      [] OTHER                -> U(0)

(* a group member nobody looks at more closely: a plain payment *)
DefaultTx == [ te |-> 1, oc |-> 0, appid |-> 0, fee |-> 1000, snd |-> 1, rekey |-> 0, close |-> 0,
               aclose |-> 0, fv |-> 0, lv |-> 0, amt |-> 0, aamt |-> 0 ]
TxAt(env, pos) == IF pos \in DOMAIN env.tx THEN env.tx[pos] ELSE DefaultTx

-----------------------------------------------------------------------------
(* Static tables of one program *)
AppOnlyOps == { "app_global_get", "app_global_put", "app_local_get", "app_local_put" }
Static(P) ==
    LET G == Graph(P)
        intcs == IF \E i \in 1..Len(P) : P[i].op = "intcblock"
                 THEN P[CHOOSE i \in 1..Len(P) : P[i].op = "intcblock"].ns ELSE << >>
    IN [ G |-> G,
         target |-> [i \in 1..Len(P) |-> JumpTargets(P, i)],
         callTarget |-> [i \in 1..Len(P) |-> IF P[i].op = "callsub" THEN LabelPos(P, P[i].s) ELSE 0],
         intcs |-> intcs,
         isApp |-> \E i \in 1..Len(P) : P[i].op \in AppOnlyOps
                                         \/ (P[i].op = "global" /\ P[i].s = "CreatorAddress") ]

-----------------------------------------------------------------------------
(* The machine.  m = [pc, stack, frames, scratch, steps, status, visited,   *)
(* usedAbs, trail]; Step(P, S, env, m) is the unique successor of a running state. *)
MaxSteps == 300      \* witnesses are only ever taken from runs within this bound (the AVM allows 700)
MaxStack == 24

Fail(m) == [m EXCEPT !.status = "rej"]
Top(m, k) == m.stack[Len(m.stack) - k]                   \* k = 0 is the top
Pop(m, n) == SubSeq(m.stack, 1, Len(m.stack) - n)
Has(m, n) == Len(m.stack) >= n

(* move to position t, recording the block entered *)
TrailCap == 6
Goto(S, m, t, stk) ==
    [m EXCEPT !.pc = t, !.stack = stk,
              !.visited = IF t <= Len(S.G.blockOf) THEN @ \cup { S.G.blockOf[t] } ELSE @,
              \* the first blocks ENTERED, in order (a block is entered when control reaches its first line)
              !.trail = IF t <= Len(S.G.blockOf) /\ S.G.start[S.G.blockOf[t]] = t /\ Len(@) < TrailCap
                        THEN Append(@, S.G.blockOf[t]) ELSE @]

Cmp(op, a, b) ==
    CASE op = "==" -> a = b [] op = "!=" -> a # b [] op = "<" -> a < b
      [] op = "<=" -> a <= b [] op = ">" -> a > b [] op = ">=" -> a >= b

StepIns(P, S, env, m) ==
    LET i   == P[m.pc]
        op  == i.op
        nxt == m.pc + 1
        push(v)      == Goto(S, m, nxt, Append(m.stack, v))
        replace(n, v) == Goto(S, m, nxt, Append(Pop(m, n), v))
        own == TxAt(env, env.idx)
    IN
    CASE op \in {"pragma", "label", "intcblock"} -> Goto(S, m, nxt, m.stack)
      [] op \in {"int", "pushint"} -> push(UC(i.n))
      [] op \in {"intc", "intc_0", "intc_1", "intc_2", "intc_3"} ->
            LET k == CASE op = "intc" -> i.n [] op = "intc_0" -> 0 [] op = "intc_1" -> 1
                       [] op = "intc_2" -> 2 [] op = "intc_3" -> 3
            IN IF k < Len(S.intcs) THEN push(UC(S.intcs[k + 1])) ELSE Fail(m)
      [] op = "addr"   -> push(Bv(AddrId(i.s)))
      [] op = "byte"   -> push(Bv(ByteId(i.s)))
      [] op = "global" -> push(GlobalField(env, i.s))
      [] op = "txn"    -> push(TxnField(own, i.s, env.idx))
      [] op = "gtxn"   ->
            IF i.n >= env.size THEN Fail(m)
            ELSE [ push(TxnField(TxAt(env, i.n), i.s, i.n)) EXCEPT !.usedAbs = TRUE ]
      [] op = "gtxns"  ->
            IF ~Has(m, 1) \/ ~IsU(Top(m, 0)) THEN Fail(m)
            ELSE LET t == Top(m, 0)[2] IN
                 IF t >= env.size THEN Fail(m)
                 ELSE [ replace(1, TxnField(TxAt(env, t), i.s, t))
                        EXCEPT !.usedAbs = (m.usedAbs \/ Top(m, 0)[3] = "c") ]
      [] op \in {"==", "!="} ->
            IF ~Has(m, 2) \/ Top(m, 0)[1] # Top(m, 1)[1] THEN Fail(m)
            ELSE replace(2, Bool(Cmp(op, Top(m, 1)[2], Top(m, 0)[2])))
      [] op \in {"<", "<=", ">", ">="} ->
            IF ~Has(m, 2) \/ ~IsU(Top(m, 0)) \/ ~IsU(Top(m, 1)) THEN Fail(m)
            ELSE replace(2, Bool(Cmp(op, Top(m, 1)[2], Top(m, 0)[2])))
      [] op \in {"&&", "||"} ->
            IF ~Has(m, 2) \/ ~IsU(Top(m, 0)) \/ ~IsU(Top(m, 1)) THEN Fail(m)
            ELSE LET a == Top(m, 1)[2] # 0
                     b == Top(m, 0)[2] # 0
                 IN replace(2, Bool(IF op = "&&" THEN a /\ b ELSE a \/ b))
      [] op = "!" ->
            IF ~Has(m, 1) \/ ~IsU(Top(m, 0)) THEN Fail(m) ELSE replace(1, Bool(Top(m, 0)[2] = 0))
      [] op = "+" ->
            IF ~Has(m, 2) \/ ~IsU(Top(m, 0)) \/ ~IsU(Top(m, 1)) THEN Fail(m)
            ELSE IF Top(m, 1)[2] > U64MAX - Top(m, 0)[2] THEN Fail(m)            \* overflow
            ELSE replace(2, U(Top(m, 1)[2] + Top(m, 0)[2]))
      [] op = "-" ->
            IF ~Has(m, 2) \/ ~IsU(Top(m, 0)) \/ ~IsU(Top(m, 1)) THEN Fail(m)
            ELSE IF Top(m, 1)[2] < Top(m, 0)[2] THEN Fail(m)                     \* underflow
            ELSE replace(2, U(Top(m, 1)[2] - Top(m, 0)[2]))
      [] op = "dup"  -> IF ~Has(m, 1) THEN Fail(m) ELSE push(Top(m, 0))
      [] op = "pop"  -> IF ~Has(m, 1) THEN Fail(m) ELSE Goto(S, m, nxt, Pop(m, 1))
      [] op = "swap" -> IF ~Has(m, 2) THEN Fail(m)
                        ELSE Goto(S, m, nxt, Pop(m, 2) \o << Top(m, 0), Top(m, 1) >>)
      [] op = "dig"  -> IF ~Has(m, i.n + 1) THEN Fail(m) ELSE push(Top(m, i.n))
      [] op = "cover" ->
            IF ~Has(m, i.n + 1) THEN Fail(m)
            ELSE LET base == Pop(m, i.n + 1)
                     mid  == SubSeq(m.stack, Len(m.stack) - i.n, Len(m.stack) - 1)
                 IN Goto(S, m, nxt, base \o << Top(m, 0) >> \o mid)
      [] op = "uncover" ->
            IF ~Has(m, i.n + 1) THEN Fail(m)
            ELSE LET base == Pop(m, i.n + 1)
                     rest == SubSeq(m.stack, Len(m.stack) - i.n + 1, Len(m.stack))
                 IN Goto(S, m, nxt, base \o rest \o << Top(m, i.n) >>)
      [] op = "select" ->
            IF ~Has(m, 3) \/ ~IsU(Top(m, 0)) THEN Fail(m)
            ELSE replace(3, IF Top(m, 0)[2] # 0 THEN Top(m, 1) ELSE Top(m, 2))
      [] op = "load"  -> push(m.scratch[i.n])
      [] op = "store" -> IF ~Has(m, 1) THEN Fail(m)
                         ELSE [ Goto(S, m, nxt, Pop(m, 1)) EXCEPT !.scratch = [m.scratch EXCEPT ![i.n] = Top(m, 0)] ]
      [] op = "app_global_get" -> IF ~Has(m, 1) THEN Fail(m) ELSE replace(1, U(0))
      [] op = "assert" ->
            IF ~Has(m, 1) \/ ~IsU(Top(m, 0)) \/ Top(m, 0)[2] = 0 THEN Fail(m) ELSE Goto(S, m, nxt, Pop(m, 1))
      [] op = "err" -> Fail(m)
      [] op = "return" ->
            IF ~Has(m, 1) \/ ~IsU(Top(m, 0)) THEN Fail(m)
            ELSE [m EXCEPT !.status = IF Top(m, 0)[2] # 0 THEN "acc" ELSE "rej"]
      [] op = "b" -> Goto(S, m, S.target[m.pc][1], m.stack)
      [] op \in {"bz", "bnz"} ->
            IF ~Has(m, 1) \/ ~IsU(Top(m, 0)) THEN Fail(m)
            ELSE LET taken == IF op = "bnz" THEN Top(m, 0)[2] # 0 ELSE Top(m, 0)[2] = 0
                 IN Goto(S, m, IF taken THEN S.target[m.pc][1] ELSE nxt, Pop(m, 1))
      [] op = "switch" ->
            IF ~Has(m, 1) \/ ~IsU(Top(m, 0)) THEN Fail(m)
            ELSE LET a == Top(m, 0)[2] IN
                 Goto(S, m, IF a < Len(S.target[m.pc]) THEN S.target[m.pc][a + 1] ELSE nxt, Pop(m, 1))
      [] op = "match" ->
            LET n == Len(S.target[m.pc]) IN
            IF ~Has(m, n + 1) THEN Fail(m)
            ELSE LET b == Top(m, 0)
                     hits == { k \in 1..n : Top(m, n + 1 - k)[1] = b[1] /\ Top(m, n + 1 - k)[2] = b[2] }
                 IN Goto(S, m, IF hits = {} THEN nxt ELSE S.target[m.pc][MinOf(hits)], Pop(m, n + 1))
      [] op = "callsub" ->
            IF Len(m.frames) >= 8 THEN Fail(m)
            ELSE [ Goto(S, m, S.callTarget[m.pc], m.stack) EXCEPT !.frames = Append(m.frames, m.pc) ]
      [] op = "retsub" ->
            IF m.frames = << >> THEN Fail(m)
            ELSE [ Goto(S, m, m.frames[Len(m.frames)] + 1, m.stack)
                   EXCEPT !.frames = SubSeq(m.frames, 1, Len(m.frames) - 1) ]
      [] OTHER -> [m EXCEPT !.status = "unmodelled"]

(* one step; running off the end of the text terminates the program *)
Step(P, S, env, m) ==
    IF m.steps >= MaxSteps THEN [m EXCEPT !.status = "budget"]
    ELSE IF m.pc > Len(P)
    THEN [m EXCEPT !.status = IF Len(m.stack) = 1 /\ IsU(Top(m, 0)) /\ Top(m, 0)[2] # 0 THEN "acc" ELSE "rej"]
    ELSE LET n == StepIns(P, S, env, m) IN
         IF Len(n.stack) > MaxStack THEN [n EXCEPT !.status = "unmodelled"]
         ELSE [n EXCEPT !.steps = m.steps + 1]

InitMachine(S) ==
    [ pc |-> 1, stack |-> << >>, frames |-> << >>, scratch |-> [k \in 0..3 |-> U(0)],
      steps |-> 0, status |-> "run", visited |-> { S.G.blockOf[1] }, usedAbs |-> FALSE,
      trail |-> << S.G.blockOf[1] >> ]
=============================================================================
