------------------------------- MODULE Teal -------------------------------
(***************************************************************************)
(* Abstract syntax of the TEAL fragment used throughout the specification. *)
(*                                                                         *)
(* A program is a sequence of instruction records                          *)
(*     [op, s, n, ns, ls, fmt]                                             *)
(* with one uniform shape (TLC compares records field by field, and the    *)
(* same records travel to the Python harness and back as JSON):            *)
(*   op   mnemonic ("label" for `name:`, "pragma" for `#pragma version n`) *)
(*   s    string immediate: field name, label, named int constant,         *)
(*        symbolic address name, byte literal                              *)
(*   n    integer immediate: constant value, transaction index, slot, depth*)
(*   ns   integer list immediate (intcblock)                               *)
(*   ls   label list immediate (switch / match)                            *)
(*   fmt  spelling hint for the pretty-printer ("", "hex", "oct", ...) -   *)
(*        never read by any semantic operator                              *)
(* Position i in the sequence is source line i of the canonical rendering. *)
(***************************************************************************)
EXTENDS Integers, Sequences, FiniteSets

Ins0(op)           == [op |-> op, s |-> "", n |-> 0, ns |-> <<>>, ls |-> <<>>, fmt |-> ""]
InsS(op, str)      == [op |-> op, s |-> str, n |-> 0, ns |-> <<>>, ls |-> <<>>, fmt |-> ""]
InsN(op, num)      == [op |-> op, s |-> "", n |-> num, ns |-> <<>>, ls |-> <<>>, fmt |-> ""]
InsSN(op, str, num) == [op |-> op, s |-> str, n |-> num, ns |-> <<>>, ls |-> <<>>, fmt |-> ""]

Pragma(v)    == InsN("pragma", v)
IntC(c)       == InsN("int", c)
PushInt(c)   == InsN("pushint", c)
Intcblock(cs) == [op |-> "intcblock", s |-> "", n |-> 0, ns |-> cs, ls |-> <<>>, fmt |-> ""]
Intc(i)      == InsN("intc", i)
Addr(a)      == InsS("addr", a)
Byte(b)      == InsS("byte", b)
Txn(f)       == InsS("txn", f)
Gtxn(i, f)   == InsSN("gtxn", f, i)
Gtxns(f)     == InsS("gtxns", f)
Global(f)    == InsS("global", f)
Lab(l)       == InsS("label", l)
B(l)         == InsS("b", l)
Bz(l)        == InsS("bz", l)
Bnz(l)       == InsS("bnz", l)
Callsub(l)   == InsS("callsub", l)
Switch(labels) == [op |-> "switch", s |-> "", n |-> 0, ns |-> <<>>, ls |-> labels, fmt |-> ""]
Match(labels)  == [op |-> "match", s |-> "", n |-> 0, ns |-> <<>>, ls |-> labels, fmt |-> ""]
Load(i)      == InsN("load", i)
Store(i)     == InsN("store", i)
Dig(k)       == InsN("dig", k)
Cover(k)     == InsN("cover", k)
Uncover(k)   == InsN("uncover", k)
Op(o)        == Ins0(o)

(* Named integer constants of the assembler (`int pay`, `int UpdateApplication`). *)
NamedInts == [ pay |-> 1, keyreg |-> 2, acfg |-> 3, axfer |-> 4, afrz |-> 5, appl |-> 6,
               NoOp |-> 0, OptIn |-> 1, CloseOut |-> 2, ClearState |-> 3,
               UpdateApplication |-> 4, DeleteApplication |-> 5 ]
NamedInt(c)  == InsSN("int", c, NamedInts[c])      \* s # "" means: print the name; n is its value

BranchOps   == {"b", "bz", "bnz"}
MultiOps    == {"switch", "match"}
\* instructions after which execution never continues with the next line
NoFallOps   == {"b", "err", "return", "retsub"}
\* instructions after which tealer (and any CFG) starts a new basic block
BlockEndOps == {"b", "bz", "bnz", "switch", "match", "callsub", "err", "return", "retsub"}

(* position of label l in program P (0 when absent) *)
LabelPos(P, l) == IF \E i \in 1..Len(P) : P[i].op = "label" /\ P[i].s = l
                  THEN CHOOSE i \in 1..Len(P) : P[i].op = "label" /\ P[i].s = l
                  ELSE 0

(* jump targets of instruction i, in operand order, as positions *)
JumpTargets(P, i) ==
    IF P[i].op \in BranchOps THEN << LabelPos(P, P[i].s) >>
    ELSE IF P[i].op \in MultiOps THEN [k \in 1..Len(P[i].ls) |-> LabelPos(P, P[i].ls[k])]
    ELSE << >>

FallsThrough(P, i) == P[i].op \notin NoFallOps

(* labels that are the target of some callsub, anywhere in the text *)
CallTargets(P) == { P[i].s : i \in { j \in 1..Len(P) : P[j].op = "callsub" } }

RangeOf(f) == { f[x] : x \in DOMAIN f }
SeqToSet(sq) == { sq[i] : i \in 1..Len(sq) }

(* NOTE: the operators below are deliberately NOT recursive.  SANY gives every RECURSIVE      *)
(* operator the highest level, and TLC then refuses to pre-evaluate (and cache) any constant *)
(* definition that uses one - the per-program tables would be recomputed in every state.     *)

(* ascending sequence of a finite set of integers *)
SortedSeq(S) == [i \in 1..Cardinality(S) |-> CHOOSE x \in S : Cardinality({ y \in S : y < x }) = i - 1]

(* sequence without duplicates, keeping first occurrences *)
DedupSeq(sq) ==
    LET keep == { i \in 1..Len(sq) : \A j \in 1..(i - 1) : sq[j] # sq[i] }
        ks   == SortedSeq(keep)
    IN  [k \in 1..Len(ks) |-> sq[ks[k]]]

(* concatenation of a sequence of sequences *)
Cat(seqs) == LET RECURSIVE C(_)
                 C(i) == IF i = 0 THEN << >> ELSE C(i - 1) \o seqs[i]
             IN C(Len(seqs))

MaxOf(S) == CHOOSE x \in S : \A y \in S : y <= x
MinOf(S) == CHOOSE x \in S : \A y \in S : x <= y
=============================================================================
