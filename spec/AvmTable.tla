------------------------------ MODULE AvmTable ------------------------------
(***************************************************************************)
(* The AVM (TEAL v1 - v8) opcode table as the Algorand specification gives *)
(* it: introduction version, execution mode, number of values popped and   *)
(* pushed (in the specification's own "Stack: ... -> ..." notation, so the *)
(* stack shufflers pop what they mention and push what they mention), and  *)
(* opcode cost for a declared program version.  Written from the           *)
(* specification, not from tealer; version and mode columns are cross-     *)
(* checked against pyteal's independent tables by the harness.             *)
(*                                                                         *)
(* conf = "sure" rows are enforced; "unsure" rows (costs that depend on    *)
(* the length of the operand) are reported but never enforced.             *)
(***************************************************************************)
EXTENDS Integers, Sequences, FiniteSets, TLC

R(ver, mode, pops, pushes, cost) ==
    [ver |-> ver, mode |-> mode, pops |-> pops, pushes |-> pushes, cost |-> cost, conf |-> "sure"]

(* opcodes whose stack effect and cost do not depend on immediates or on the version *)
Fixed ==
  [ err |-> R(1, "any", 0, 0, 1),
    ed25519verify |-> R(1, "any", 3, 1, 1900),
    ed25519verify_bare |-> R(7, "any", 3, 1, 1900),
    ecdsa_pk_recover |-> R(5, "any", 4, 2, 2000),
    len |-> R(1, "any", 1, 1, 1), itob |-> R(1, "any", 1, 1, 1), btoi |-> R(1, "any", 1, 1, 1),
    mulw |-> R(1, "any", 2, 2, 1), addw |-> R(2, "any", 2, 2, 1), divmodw |-> R(4, "any", 4, 4, 20),
    divw |-> R(6, "any", 3, 1, 1),
    intcblock |-> R(1, "any", 0, 0, 1), intc |-> R(1, "any", 0, 1, 1),
    intc_0 |-> R(1, "any", 0, 1, 1), intc_1 |-> R(1, "any", 0, 1, 1), intc_2 |-> R(1, "any", 0, 1, 1),
    intc_3 |-> R(1, "any", 0, 1, 1),
    bytecblock |-> R(1, "any", 0, 0, 1), bytec |-> R(1, "any", 0, 1, 1),
    bytec_0 |-> R(1, "any", 0, 1, 1), bytec_1 |-> R(1, "any", 0, 1, 1), bytec_2 |-> R(1, "any", 0, 1, 1),
    bytec_3 |-> R(1, "any", 0, 1, 1),
    arg |-> R(1, "sig", 0, 1, 1), arg_0 |-> R(1, "sig", 0, 1, 1), arg_1 |-> R(1, "sig", 0, 1, 1),
    arg_2 |-> R(1, "sig", 0, 1, 1), arg_3 |-> R(1, "sig", 0, 1, 1), args |-> R(5, "sig", 1, 1, 1),
    txn |-> R(1, "any", 0, 1, 1), global |-> R(1, "any", 0, 1, 1), gtxn |-> R(1, "any", 0, 1, 1),
    load |-> R(1, "any", 0, 1, 1), store |-> R(1, "any", 1, 0, 1),
    txna |-> R(2, "any", 0, 1, 1), gtxna |-> R(2, "any", 0, 1, 1),
    gtxns |-> R(3, "any", 1, 1, 1), gtxnsa |-> R(3, "any", 1, 1, 1),
    gload |-> R(4, "app", 0, 1, 1), gloads |-> R(4, "app", 1, 1, 1), gloadss |-> R(6, "app", 2, 1, 1),
    gaid |-> R(4, "app", 0, 1, 1), gaids |-> R(4, "app", 1, 1, 1),
    loads |-> R(5, "any", 1, 1, 1), stores |-> R(5, "any", 2, 0, 1),
    bnz |-> R(1, "any", 1, 0, 1), bz |-> R(2, "any", 1, 0, 1), b |-> R(2, "any", 0, 0, 1),
    return |-> R(2, "any", 1, 0, 1), assert |-> R(3, "any", 1, 0, 1),
    pop |-> R(1, "any", 1, 0, 1), dup |-> R(1, "any", 1, 2, 1), dup2 |-> R(2, "any", 2, 4, 1),
    swap |-> R(3, "any", 2, 2, 1), select |-> R(3, "any", 3, 1, 1),
    concat |-> R(2, "any", 2, 1, 1), substring |-> R(2, "any", 1, 1, 1), substring3 |-> R(2, "any", 3, 1, 1),
    getbit |-> R(3, "any", 2, 1, 1), setbit |-> R(3, "any", 3, 1, 1),
    getbyte |-> R(3, "any", 2, 1, 1), setbyte |-> R(3, "any", 3, 1, 1),
    extract |-> R(5, "any", 1, 1, 1), extract3 |-> R(5, "any", 3, 1, 1),
    extract_uint16 |-> R(5, "any", 2, 1, 1), extract_uint32 |-> R(5, "any", 2, 1, 1),
    extract_uint64 |-> R(5, "any", 2, 1, 1),
    replace2 |-> R(7, "any", 2, 1, 1), replace3 |-> R(7, "any", 3, 1, 1),
    balance |-> R(2, "app", 1, 1, 1), min_balance |-> R(3, "app", 1, 1, 1),
    app_opted_in |-> R(2, "app", 2, 1, 1),
    app_local_get |-> R(2, "app", 2, 1, 1), app_local_get_ex |-> R(2, "app", 3, 2, 1),
    app_global_get |-> R(2, "app", 1, 1, 1), app_global_get_ex |-> R(2, "app", 2, 2, 1),
    app_local_put |-> R(2, "app", 3, 0, 1), app_global_put |-> R(2, "app", 2, 0, 1),
    app_local_del |-> R(2, "app", 2, 0, 1), app_global_del |-> R(2, "app", 1, 0, 1),
    asset_holding_get |-> R(2, "app", 2, 2, 1), asset_params_get |-> R(2, "app", 1, 2, 1),
    app_params_get |-> R(5, "app", 1, 2, 1), acct_params_get |-> R(6, "app", 1, 2, 1),
    pushbytes |-> R(3, "any", 0, 1, 1), pushint |-> R(3, "any", 0, 1, 1),
    callsub |-> R(4, "any", 0, 0, 1), retsub |-> R(4, "any", 0, 0, 1),
    proto |-> R(8, "any", 0, 0, 1), frame_dig |-> R(8, "any", 0, 1, 1), frame_bury |-> R(8, "any", 1, 0, 1),
    switch |-> R(8, "any", 1, 0, 1),
    shl |-> R(4, "any", 2, 1, 1), shr |-> R(4, "any", 2, 1, 1), sqrt |-> R(4, "any", 1, 1, 4),
    bitlen |-> R(4, "any", 1, 1, 1), exp |-> R(4, "any", 2, 1, 1), expw |-> R(4, "any", 2, 2, 10),
    bsqrt |-> R(6, "any", 1, 1, 40), sha3_256 |-> R(7, "any", 1, 1, 130),
    bzero |-> R(4, "any", 1, 1, 1),
    log |-> R(5, "app", 1, 0, 1),
    itxn_begin |-> R(5, "app", 0, 0, 1), itxn_field |-> R(5, "app", 1, 0, 1), itxn_submit |-> R(5, "app", 0, 0, 1),
    itxn_next |-> R(6, "app", 0, 0, 1),
    itxn |-> R(5, "app", 0, 1, 1), itxna |-> R(5, "app", 0, 1, 1), itxnas |-> R(6, "app", 1, 1, 1),
    gitxn |-> R(6, "app", 0, 1, 1), gitxna |-> R(6, "app", 0, 1, 1), gitxnas |-> R(6, "app", 1, 1, 1),
    txnas |-> R(5, "any", 1, 1, 1), gtxnas |-> R(5, "any", 1, 1, 1), gtxnsas |-> R(5, "any", 2, 1, 1),
    box_create |-> R(8, "app", 2, 1, 1), box_extract |-> R(8, "app", 3, 1, 1), box_replace |-> R(8, "app", 3, 0, 1),
    box_del |-> R(8, "app", 1, 1, 1), box_len |-> R(8, "app", 1, 2, 1), box_get |-> R(8, "app", 1, 2, 1),
    box_put |-> R(8, "app", 2, 0, 1),
    vrf_verify |-> R(7, "any", 3, 2, 5700), block |-> R(7, "any", 1, 1, 1),
    (* assembler pseudo-ops *)
    int |-> R(1, "any", 0, 1, 1), byte |-> R(1, "any", 0, 1, 1), addr |-> R(1, "any", 0, 1, 1),
    method |-> [R(1, "any", 0, 1, 1) EXCEPT !.conf = "unsure"] ]      \* assembler pseudo-op: no AVM version of its own

(* binary / unary operators (their mnemonics are not identifiers) *)
Operators ==
  [ x \in { "+", "-", "/", "*", "<", ">", "<=", ">=", "&&", "||", "==", "!=", "%", "|", "&", "^" }
      |-> R(1, "any", 2, 1, 1) ]
  @@ [ x \in { "!", "~" } |-> R(1, "any", 1, 1, 1) ]
  @@ [ x \in { "b+", "b-" } |-> R(4, "any", 2, 1, 10) ]
  @@ [ x \in { "b/", "b*", "b%" } |-> R(4, "any", 2, 1, 20) ]
  @@ [ x \in { "b<", "b>", "b<=", "b>=", "b==", "b!=" } |-> R(4, "any", 2, 1, 1) ]
  @@ [ x \in { "b|", "b&", "b^" } |-> R(4, "any", 2, 1, 6) ]
  @@ [ x \in { "b~" } |-> R(4, "any", 1, 1, 4) ]

(* Row(op, n, k, v): op mnemonic; n first integer immediate; k number of list immediates (labels of
   match, values of pushints / pushbytess); v the declared program version; s string immediate (curve) *)
Row(op, n, k, s, v) ==
    CASE op = "sha256"     -> R(1, "any", 1, 1, IF v = 1 THEN 7 ELSE 35)
      [] op = "keccak256"  -> R(1, "any", 1, 1, IF v = 1 THEN 26 ELSE 130)
      [] op = "sha512_256" -> R(1, "any", 1, 1, IF v = 1 THEN 9 ELSE 45)
      [] op = "ecdsa_verify"        -> R(5, "any", 5, 1, IF s = "Secp256r1" THEN 2500 ELSE 1700)
      [] op = "ecdsa_pk_decompress" -> R(5, "any", 1, 2, IF s = "Secp256r1" THEN 2400 ELSE 650)
      [] op = "dig"     -> R(3, "any", n + 1, n + 2, 1)
      [] op = "cover"   -> R(5, "any", n + 1, n + 1, 1)
      [] op = "uncover" -> R(5, "any", n + 1, n + 1, 1)
      \* bury n replaces the value n below the top with the top: in the window notation used for dig /
      \* cover / uncover it consumes n+1 values and leaves n (the specification's one-line stack comment
      \* `..., A -> ...` hides the rewritten slot)
      [] op = "bury"    -> R(8, "any", n + 1, n, 1)
      [] op = "popn"    -> R(8, "any", n, 0, 1)
      [] op = "dupn"    -> R(8, "any", 1, n + 1, 1)
      [] op = "pushints"   -> R(8, "any", 0, k, 1)
      [] op = "pushbytess" -> R(8, "any", 0, k, 1)
      [] op = "match"      -> R(8, "any", k + 1, 0, 1)
      \* `replace s` is the assembler's spelling of replace2 s, bare `replace` of replace3 (k = immediates given)
      [] op = "replace"    -> R(7, "any", IF k = 1 THEN 2 ELSE 3, 1, 1)
      [] op = "base64_decode" -> [R(7, "any", 1, 1, 1) EXCEPT !.conf = "unsure"]   \* 1 + 1 per 16 bytes
      [] op = "json_ref"      -> [R(7, "any", 2, 1, 25) EXCEPT !.conf = "unsure"]  \* 25 + 2 per 7 bytes
      [] op \in DOMAIN Operators -> Operators[op]
      [] op \in DOMAIN Fixed     -> Fixed[op]

Known(op) == op \in DOMAIN Operators \/ op \in DOMAIN Fixed
             \/ op \in { "sha256", "keccak256", "sha512_256", "ecdsa_verify", "ecdsa_pk_decompress", "dig", "cover",
                         "uncover", "bury", "popn", "dupn", "pushints", "pushbytess", "match", "base64_decode", "json_ref", "replace" }
AllOps == DOMAIN Operators \cup DOMAIN Fixed
          \cup { "sha256", "keccak256", "sha512_256", "ecdsa_verify", "ecdsa_pk_decompress", "dig", "cover",
                 "uncover", "bury", "popn", "dupn", "pushints", "pushbytess", "match", "base64_decode", "json_ref", "replace" }

(* ---- fields: introduction version (1 when absent from the map) ---- *)
TxnFieldVer ==
  [ Sender |-> 1, Fee |-> 1, FirstValid |-> 1, FirstValidTime |-> 7, LastValid |-> 1, Note |-> 1, Lease |-> 1,
    Receiver |-> 1, Amount |-> 1, CloseRemainderTo |-> 1, VotePK |-> 1, SelectionPK |-> 1, VoteFirst |-> 1,
    VoteLast |-> 1, VoteKeyDilution |-> 1, Type |-> 1, TypeEnum |-> 1, XferAsset |-> 1, AssetAmount |-> 1,
    AssetSender |-> 1, AssetReceiver |-> 1, AssetCloseTo |-> 1, GroupIndex |-> 1, TxID |-> 1,
    ApplicationID |-> 2, OnCompletion |-> 2, ApplicationArgs |-> 2, NumAppArgs |-> 2, Accounts |-> 2,
    NumAccounts |-> 2, ApprovalProgram |-> 2, ClearStateProgram |-> 2, RekeyTo |-> 2, ConfigAsset |-> 2,
    ConfigAssetTotal |-> 2, ConfigAssetDecimals |-> 2, ConfigAssetDefaultFrozen |-> 2, ConfigAssetUnitName |-> 2,
    ConfigAssetName |-> 2, ConfigAssetURL |-> 2, ConfigAssetMetadataHash |-> 2, ConfigAssetManager |-> 2,
    ConfigAssetReserve |-> 2, ConfigAssetFreeze |-> 2, ConfigAssetClawback |-> 2, FreezeAsset |-> 2,
    FreezeAssetAccount |-> 2, FreezeAssetFrozen |-> 2,
    Assets |-> 3, NumAssets |-> 3, Applications |-> 3, NumApplications |-> 3, GlobalNumUint |-> 3,
    GlobalNumByteSlice |-> 3, LocalNumUint |-> 3, LocalNumByteSlice |-> 3,
    ExtraProgramPages |-> 4, Nonparticipation |-> 5, Logs |-> 5, NumLogs |-> 5, CreatedAssetID |-> 5,
    CreatedApplicationID |-> 5, LastLog |-> 6, StateProofPK |-> 6, ApprovalProgramPages |-> 7,
    NumApprovalProgramPages |-> 7, ClearStateProgramPages |-> 7, NumClearStateProgramPages |-> 7 ]
GlobalFieldVer ==
  [ MinTxnFee |-> 1, MinBalance |-> 1, MaxTxnLife |-> 1, ZeroAddress |-> 1, GroupSize |-> 1,
    LogicSigVersion |-> 2, Round |-> 2, LatestTimestamp |-> 2, CurrentApplicationID |-> 2,
    CreatorAddress |-> 3, CurrentApplicationAddress |-> 5, GroupID |-> 5, OpcodeBudget |-> 6,
    CallerApplicationID |-> 6, CallerApplicationAddress |-> 6 ]
(* global fields that exist only in application mode *)
GlobalFieldAppOnly == { "Round", "LatestTimestamp", "CurrentApplicationID", "CreatorAddress",
                        "CurrentApplicationAddress", "CallerApplicationID", "CallerApplicationAddress" }
=============================================================================
