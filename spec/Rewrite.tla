------------------------------- MODULE Rewrite -------------------------------
(***************************************************************************)
(* The meaning-preserving source rewrites of C15, as functions on          *)
(* instruction lists.  Each yields [prog, map] where map[i] is the         *)
(* position in the rewritten text of original instruction i.               *)
(*  rename   every label gets a new name                                   *)
(*  hex/oct  integers spelled in hexadecimal / octal                       *)
(*  numeric  named constants (pay, UpdateApplication ...) by their number  *)
(*  pushint  `int c` -> `pushint c`                                        *)
(*  intc     constants moved into an entry-block intcblock, `intc`/`intc_k`*)
(*  pad      stack-neutral `int 7; pop` after the pragma and every label   *)
(*  movesubs subroutine bodies moved in front of the main code             *)
(* (comments / blank lines / indentation are applied by the pretty-printer *)
(* variant, which reports its own line map.)                               *)
(* That a rewrite preserves meaning is not assumed: RewriteCheck runs both *)
(* texts on the Avm machine over the whole input space.                    *)
(***************************************************************************)
EXTENDS Teal

Ident(P) == [i \in 1..Len(P) |-> i]
NewName(l) == l \o "_r"
Rename(P) ==
    [prog |-> [i \in 1..Len(P) |->
                 IF P[i].op \in {"label", "b", "bz", "bnz", "callsub"} THEN [P[i] EXCEPT !.s = NewName(@)]
                 ELSE IF P[i].op \in {"switch", "match"} THEN [P[i] EXCEPT !.ls = [k \in 1..Len(@) |-> NewName(@[k])]]
                 ELSE P[i]],
     map |-> Ident(P)]
Spell(P, f) == [prog |-> [i \in 1..Len(P) |-> IF P[i].op \in {"int", "pushint"} /\ P[i].s = "" THEN [P[i] EXCEPT !.fmt = f] ELSE P[i]],
                map |-> Ident(P)]
Numeric(P) == [prog |-> [i \in 1..Len(P) |-> IF P[i].op = "int" /\ P[i].s # "" THEN [P[i] EXCEPT !.s = ""] ELSE P[i]],
               map |-> Ident(P)]
ToPushInt(P) == [prog |-> [i \in 1..Len(P) |-> IF P[i].op = "int" /\ P[i].s = "" THEN [P[i] EXCEPT !.op = "pushint"] ELSE P[i]],
               map |-> Ident(P)]

(* distinct integer constants in order of first occurrence *)
IntPositions(P) == SelectSeq([i \in 1..Len(P) |-> i], LAMBDA i : P[i].op = "int")
Consts(P) == DedupSeq([k \in 1..Len(IntPositions(P)) |-> P[IntPositions(P)[k]].n])
IndexOf(sq, x) == CHOOSE k \in 1..Len(sq) : sq[k] = x
ToIntc(P) ==
    LET cs == Consts(P)
        conv(i) == LET k == IndexOf(cs, P[i].n) - 1 IN
                   IF k <= 3 THEN Op(<< "intc_0", "intc_1", "intc_2", "intc_3" >>[k + 1]) ELSE InsN("intc", k)
    IN  IF cs = << >> \/ P[1].op # "pragma" THEN [prog |-> P, map |-> Ident(P)]
        ELSE [prog |-> << P[1], Intcblock(cs) >> \o [j \in 1..(Len(P) - 1) |-> IF P[j + 1].op = "int" THEN conv(j + 1) ELSE P[j + 1]],
              map |-> [i \in 1..Len(P) |-> IF i = 1 THEN 1 ELSE i + 1]]

(* padding after the pragma and after every label (the generated programs have an empty stack there) *)
PadAfter(P, i) == P[i].op \in {"pragma", "label"}
Pad(P) ==
    LET before(i) == Cardinality({ j \in 1..(i - 1) : PadAfter(P, j) })
        newLen == Len(P) + 2 * Cardinality({ j \in 1..Len(P) : PadAfter(P, j) })
        pos(i) == i + 2 * before(i)
        src(k) == CHOOSE i \in 1..Len(P) : pos(i) <= k /\ (i = Len(P) \/ pos(i + 1) > k)
    IN [prog |-> [k \in 1..newLen |-> LET i == src(k) IN
                                      IF k = pos(i) THEN P[i] ELSE IF k = pos(i) + 1 THEN IntC(7) ELSE Op("pop")],
        map |-> [i \in 1..Len(P) |-> pos(i)]]

(* subroutine bodies (everything from the first callsub-target label on) moved before the main code *)
FirstSub(P) == LET tg == { LabelPos(P, l) : l \in CallTargets(P) } IN IF tg = {} THEN 0 ELSE MinOf(tg)
MoveSubs(P) ==
    LET f == FirstSub(P)
        n == Len(P)
        movable == /\ f > 2 /\ P[1].op = "pragma"
                   /\ P[f - 1].op \in NoFallOps                               \* main does not run into the subroutines
                   /\ \A i \in 2..(f - 1) : P[i].op # "label" \/ P[i].s \notin CallTargets(P)
                   /\ P[n].op \in NoFallOps                                  \* the last subroutine does not run off the end
    IN  IF ~movable THEN [prog |-> P, map |-> Ident(P)]
        ELSE [prog |-> << P[1], B("main_rw") >> \o SubSeq(P, f, n) \o << Lab("main_rw") >> \o SubSeq(P, 2, f - 1),
              map |-> [i \in 1..n |-> IF i = 1 THEN 1
                                      ELSE IF i >= f THEN 2 + (i - f + 1)
                                      ELSE 2 + (n - f + 1) + 1 + (i - 1)]]

Rewrites == << "rename", "hex", "oct", "numeric", "pushint", "intc", "pad", "movesubs", "pad+rename", "intc+pad", "movesubs+pad+hex" >>
Compose(r1, r2) == [prog |-> r2.prog, map |-> [i \in DOMAIN r1.map |-> r2.map[r1.map[i]]]]
Apply(P, r) ==
    CASE r = "rename"   -> Rename(P)
      [] r = "hex"      -> Spell(P, "hex")
      [] r = "oct"      -> Spell(P, "oct")
      [] r = "numeric"  -> Numeric(P)
      [] r = "pushint"  -> ToPushInt(P)
      [] r = "intc"     -> ToIntc(P)
      [] r = "pad"      -> Pad(P)
      [] r = "movesubs" -> MoveSubs(P)
      [] r = "pad+rename" -> LET a == Pad(P) IN Compose(a, Rename(a.prog))
      [] r = "intc+pad"   -> LET a == ToIntc(P) IN Compose(a, Pad(a.prog))
      [] r = "movesubs+pad+hex" -> LET a == MoveSubs(P)
                                       b == Compose(a, Pad(a.prog))
                                   IN Compose(b, Spell(b.prog, "hex"))
=============================================================================
