----------------------------- MODULE ExactJudge -----------------------------
(***************************************************************************)
(* Phase 2 of the exactness checks.  Input: per program the real tool's    *)
(* observation and the facts printed by ExactWalk (regrouped per program,  *)
(* nothing else done to them).  One TLC state per program; clauses:        *)
(*  C06  sizes / indices listed iff admitted by some accepting walk        *)
(*       through the block (blocks of subroutines entered from several     *)
(*       call sites - directly or through their callers - may also list    *)
(*       what the call-site-merging walk admits); index < some size        *)
(*  C08  a block through which no accepting walk admits a fresh address    *)
(*       is not reported as `any address`                                  *)
(*  C09  the fee bound is exactly the largest admitted representative      *)
(*  C03  a detector reports only if some valid path consists of blocks at  *)
(*       which each of its fields - taken independently - admits the       *)
(*       dangerous value                                                   *)
(***************************************************************************)
EXTENDS PathSem, PathReach, Json, IOUtils, TLC, SequencesExt

Data  == JsonDeserialize(IOEnv.OBS_FILE)
Cases == Data.cases
N     == Len(Cases)

V(ok, clause, det, b, obs, exp) ==
    IF ok THEN << >> ELSE << [clause |-> clause, det |-> det, b |-> b, obs |-> ToJson(obs), exp |-> ToJson(exp)] >>
ForEach(S, F(_)) == LET ss == SortedSeq(S) IN Cat([i \in 1..Len(ss) |-> F(ss[i])])

(* dangerous values per detector, as (field, set of values) pairs that must ALL be admitted *)
DangerSpec(P, d) ==
    CASE d = "rekey-to"              -> << << "RekeyTo", {ATTACKER} >> >>
      [] d = "can-close-account"     -> << << "CloseRemainderTo", {ATTACKER} >>, << "TypeEnum", {1} >> >>
      [] d = "can-close-asset"       -> << << "AssetCloseTo", {ATTACKER} >>, << "TypeEnum", {4} >> >>
      [] d = "missing-fee-check"     -> << << "Fee", { v \in FeeReps(P) : v > 272000 } >> >>
      [] d = "is-updatable"          -> << << "OnCompletion", {4} >>, << "TypeEnum", {6} >> >>
      [] d = "is-deletable"          -> << << "OnCompletion", {5} >>, << "TypeEnum", {6} >> >>
      [] d = "unprotected-updatable" -> << << "OnCompletion", {4} >>, << "TypeEnum", {6} >>, << "Sender", {ATTACKER} >> >>
      [] d = "unprotected-deletable" -> << << "OnCompletion", {5} >>, << "TypeEnum", {6} >>, << "Sender", {ATTACKER} >> >>
      [] d = "group-size-check"      -> << << "GroupSize", {16} >> >>
DetectorNames == << "rekey-to", "can-close-account", "can-close-asset", "missing-fee-check", "is-updatable",
                    "is-deletable", "unprotected-updatable", "unprotected-deletable", "group-size-check" >>

Violations(c) ==
    LET P == c.prog
        O == c.obs
        G == Graph(P)
        facts == c.feas                                  \* sequence of [f, v, mode, bs]
        explored == ExploredFields(P)
        fb == FunctionBlocks(G, P)
        (* values of field f admitted through block b in the given mode *)
        Adm(f, mode, b) ==
            { facts[i].v : i \in { j \in 1..Len(facts) : facts[j].f = f /\ facts[j].mode = mode
                                                           /\ b \in SeqToSet(facts[j].bs) } }
        OnAcc(mode, b) == \E i \in 1..Len(facts) : facts[i].f = "none" /\ facts[i].mode = mode
                                                       /\ b \in SeqToSet(facts[i].bs)
        (* a field the program never compares is admitted with every value wherever an accepting walk passes *)
        AdmAll(f, dom, mode, b) == IF f \in explored THEN Adm(f, mode, b) ELSE IF OnAcc(mode, b) THEN dom ELSE {}
        (* subroutines entered from several call sites, directly or through their callers *)
        multi0 == { nm \in G.subNames : Len(Callers(G, P, nm)) >= 2 }
        calledFrom(S) == { Callee(G, P, b) : b \in { x \in UNION { G.subBlocks[nm] : nm \in S } : IsCallBlock(G, P, x) } }
        multi1 == multi0 \cup calledFrom(multi0)
        multi2 == multi1 \cup calledFrom(multi1)
        multi  == multi2 \cup calledFrom(multi2)
        multiBlocks == UNION { G.subBlocks[nm] : nm \in multi }
        modeOf(b) == IF b \in multiBlocks THEN "merged" ELSE "matched"
        ctx(b) == O.ctx[ToString(b)]
        blocks == { b \in fb : ToString(b) \in DOMAIN O.ctx }
        (* ---- C03: is there a valid path of blocks that admit the dangerous value of every field of d ---- *)
        goodAt(d, b) == \A k \in 1..Len(DangerSpec(P, d)) :
                           LET fs == DangerSpec(P, d)[k] IN
                           AdmAll(fs[1], fs[2], modeOf(b), b) \cap fs[2] # {}
        goodT == TLCEval([k \in 1..Len(DetectorNames) |-> TLCEval([b \in G.ids |-> goodAt(DetectorNames[k], b)])])
        detIx(d) == CHOOSE k \in 1..Len(DetectorNames) : DetectorNames[k] = d
        good(d, b) == goodT[detIx(d)][b]
        Reportable(d) == CanFinish(G, P, goodT[detIx(d)])
    IN
    IF ~O.ok THEN << >> ELSE
       ForEach(blocks, LAMBDA b :
          LET cx == ctx(b)
              md == modeOf(b)
              sizesM == AdmAll("GroupSize", 1..16, "matched", b)
              sizesX == AdmAll("GroupSize", 1..16, md, b)
              idxM   == AdmAll("GroupIndex", 0..15, "matched", b)
              idxX   == AdmAll("GroupIndex", 0..15, md, b)
              oSizes == SeqToSet(cx.sizes)
              oIdx   == SeqToSet(cx.indices)
              feeM   == AdmAll("Fee", {U64MAX}, "matched", b)
              feeX   == AdmAll("Fee", {U64MAX}, md, b)
              maxOr0(S) == IF S = {} THEN 0 ELSE MaxOf(S)
          IN V(sizesM \subseteq oSizes, "c06.exact.size-missing", "", b, cx.sizes, SortedSeq(sizesM))
          \o V(oSizes \subseteq sizesX, "c06.exact.size-extra", "", b, cx.sizes, SortedSeq(sizesX))
          \o V({ i \in idxM : \E s \in oSizes : s > i } \subseteq oIdx, "c06.exact.index-missing", "", b, cx.indices,
               SortedSeq(idxM))
          \o V(oIdx \subseteq idxX, "c06.exact.index-extra", "", b, cx.indices, SortedSeq(idxX))
          \o V(\A i \in oIdx : \E s \in oSizes : s > i, "c06.index-without-larger-size", "", b, cx.indices, cx.sizes)
          \o Cat([k \in 1..4 |->
                   LET F == << "RekeyTo", "CloseRemainderTo", "AssetCloseTo", "Sender" >>[k]
                       av == << cx.rekey, cx.close, cx.aclose, cx.sender >>[k]
                   IN IF F \in explored
                      THEN V(ATTACKER \in Adm(F, md, b) \/ ~av.any, "c08.converse", F, b, av, SortedSeq(Adm(F, md, b)))
                      ELSE << >>])
          \o (IF "Fee" \in explored
              THEN V(~cx.feeunk /\ cx.fee >= maxOr0(feeM) /\ cx.fee <= maxOr0(feeX), "c09.exact", "", b,
                     << cx.fee, cx.feeunk >>, << maxOr0(feeM), maxOr0(feeX) >>)
              ELSE << >>))
    \o Cat([k \in 1..Len(DetectorNames) |->
              LET d == DetectorNames[k] IN
              V(O.det[d].paths = << >> \/ Reportable(d), "c03.report-without-admitting-path", d, -1,
                O.det[d].paths, "no path of blocks admitting the dangerous value")])

Stats(c) == [facts |-> Len(c.feas),
             fields |-> { c.feas[i].f : i \in 1..Len(c.feas) }]

VARIABLE p
Init == p = 1
Next == p' \in {2 * p, 2 * p + 1} /\ p' <= N
Report ==
    p > N \/
    LET c  == Cases[p]
        vs == Violations(c)
    IN  /\ \A i \in 1..Len(vs) :
               PrintT("@@W " \o ToJson([pid |-> c.pid, clause |-> vs[i].clause, det |-> vs[i].det, b |-> vs[i].b,
                                       obs |-> vs[i].obs, exp |-> vs[i].exp]) \o " W@@")
        /\ PrintT("@@S " \o ToJson([pid |-> c.pid, stats |-> Stats(c)]) \o " S@@")
=============================================================================
