------------------------------- MODULE SolverAny -------------------------------
(***************************************************************************)
(* All schedules of the dataflow engine (C14: "worklist orders induced by  *)
(* set iteration"): the worklist is treated as a set - any queued block    *)
(* may be popped next, and the initial worklists contain every block in    *)
(* any order.  TLC explores every schedule on the real graph with the real *)
(* block / edge constraints of a recorded run and checks that              *)
(*   Confluent   whenever the engine terminates, its result is the         *)
(*               recorded result of the real run - so the result cannot    *)
(*               depend on the order in which blocks are processed.        *)
(***************************************************************************)
EXTENDS Solver, Json, IOUtils, TLC

Rec == JsonDeserialize(IOEnv.TRACE_FILE)
RecP == Rec.prog
RecKeys == Rec.keys
RecUniv == [k \in 1..Rec.keys |-> SeqToSet(Rec.univ[k])]
RecPrsv == [b \in { Rec.prsv[i].b : i \in 1..Len(Rec.prsv) } |->
              LET r == Rec.prsv[CHOOSE i \in 1..Len(Rec.prsv) : Rec.prsv[i].b = b] IN [k \in 1..Rec.keys |-> SeqToSet(r.val[k])]]
RecEdge == [i \in 1..Len(Rec.edges) |-> [to |-> Rec.edges[i].to, from |-> Rec.edges[i].from,
                                          val |-> [k \in 1..Rec.keys |-> SeqToSet(Rec.edges[i].val[k])]]]
Final == LET ev == Rec.events[Len(Rec.events)] IN [i \in 1..Len(ev.result) |-> ev.result[i]]
Val(v) == [k \in 1..Keys |-> SeqToSet(v[k])]

(* the worklist as a set: a canonical (sorted) sequence, so that schedules meet in the same state *)
Canon(q) == SortedSeq(SeqToSet(q))
AInit == Init
ANext ==
    \/ (phase = "fwd-start" /\ Start("fwd", SortedSeq(FB)))
    \/ (phase = "bwd-start" /\ Start("bwd", SortedSeq({ b \in FB : ~IsLeafG(b) })))
    \/ \E b \in SeqToSet(wl) : (FwdPop(b, FwdQ(b)) \/ BwdPop(b, BwdQ(b)))
    \/ FwdDone \/ BwdDone
(* states are identified modulo the order of the worklist (VIEW in the .cfg) *)
AView == << phase, prsv, out, Canon(wl) >>

Confluent == phase = "done" => \A i \in 1..Len(Final) : out[Final[i].b] = Val(Final[i].val)

(***************************************************************************)
(* Design properties of the engine, checked on every transition of every   *)
(* schedule (they are what makes Confluent true, and each one names a way  *)
(* in which an engine can be wrong although one FIFO run looks fine):      *)
(*   Ascending   within a pass no pop ever removes a value from out[b]     *)
(*               (chaotic iteration from Bot of monotone equations)        *)
(*   Progress    well-founded measure: a pop either adds a value           *)
(*               somewhere or shortens the worklist - every schedule       *)
(*               terminates after at most |FB| * (|Univ| + 1) pops a pass  *)
(*   Bounded     out[b] never exceeds the block's own constraint           *)
(*   FwdFix /    when a worklist runs empty, out IS a fixpoint of the      *)
(*   BwdFix      pass's equations: the re-queueing relation (FwdMore /     *)
(*               BwdMore) is complete for the dependencies of ReachIn /    *)
(*               LiveIn - a missing dependent (D3: a jump predecessor of a *)
(*               return point dropped) leaves a stale value under SOME     *)
(*               order even when the FIFO order happens to repair it       *)
(*   BwdInFwd    the stored result of a block is within its reachout       *)
(***************************************************************************)
Leq(a, b) == \A k \in 1..Keys : a[k] \subseteq b[k]
Total(o) == LET RECURSIVE S(_)
                S(T) == IF T = {} THEN 0 ELSE LET b == CHOOSE x \in T : TRUE
                                              IN S(T \ {b}) + Cardinality(UNION { {<<k, e>> : e \in o[b][k]} : k \in 1..Keys })
            IN S(FB)
InPass == phase \in {"fwd", "bwd"} /\ phase' = phase
Ascending == [][InPass => \A b \in FB : Leq(out[b], out'[b])]_vars
Progress  == [][InPass => \/ Total(out') > Total(out)
                          \/ (out' = out /\ Len(wl') < Len(wl))]_vars
Bounded == phase \in {"fwd", "bwd"} => \A b \in FB : Leq(out[b], prsv[b])
FwdFix == (phase = "fwd" /\ wl = << >>) => \A b \in FB : out[b] = FwdNew(b)
BwdFix == (phase = "bwd" /\ wl = << >>) => \A b \in FB : out[b] = BwdNew(b)
BwdInFwd == phase = "done" => \A b \in FB : Leq(out[b], prsv[b])
=============================================================================
