------------------------------- MODULE SolverAny -------------------------------
(***************************************************************************)
(* All schedules of the dataflow engine (C14: "worklist orders induced by  *)
(* set iteration"): the worklist is treated as a set - any queued block    *)
(* may be popped next, and the initial worklists contain every block in    *)
(* any order.  TLC explores every schedule on the real graph with the real *)
(* block / edge constraints of a recorded run and checks that              *)
(*   Confluent   whenever the engine terminates, its result is the         *)
(*               recorded result of the real run - so the result cannot    *)
(*               depend on the order in which blocks are processed.        *)
(***************************************************************************)
EXTENDS Solver, Json, IOUtils, TLC

Rec == JsonDeserialize(IOEnv.TRACE_FILE)
RecP == Rec.prog
RecKeys == Rec.keys
RecUniv == [k \in 1..Rec.keys |-> SeqToSet(Rec.univ[k])]
RecPrsv == [b \in { Rec.prsv[i].b : i \in 1..Len(Rec.prsv) } |->
              LET r == Rec.prsv[CHOOSE i \in 1..Len(Rec.prsv) : Rec.prsv[i].b = b] IN [k \in 1..Rec.keys |-> SeqToSet(r.val[k])]]
RecEdge == [i \in 1..Len(Rec.edges) |-> [to |-> Rec.edges[i].to, from |-> Rec.edges[i].from,
                                          val |-> [k \in 1..Rec.keys |-> SeqToSet(Rec.edges[i].val[k])]]]
Final == LET ev == Rec.events[Len(Rec.events)] IN [i \in 1..Len(ev.result) |-> ev.result[i]]
Val(v) == [k \in 1..Keys |-> SeqToSet(v[k])]

(* the worklist as a set: a canonical (sorted) sequence, so that schedules meet in the same state *)
Canon(q) == SortedSeq(SeqToSet(q))
AInit == Init
ANext ==
    \/ (phase = "fwd-start" /\ Start("fwd", SortedSeq(FB)))
    \/ (phase = "bwd-start" /\ Start("bwd", SortedSeq({ b \in FB : ~IsLeafG(b) })))
    \/ \E b \in SeqToSet(wl) : (FwdPop(b, FwdQ(b)) \/ BwdPop(b, BwdQ(b)))
    \/ FwdDone \/ BwdDone
(* states are identified modulo the order of the worklist (VIEW in the .cfg) *)
AView == << phase, prsv, out, Canon(wl) >>

Confluent == phase = "done" => \A i \in 1..Len(Final) : out[Final[i].b] = Val(Final[i].val)
=============================================================================
