"""Parallel observation of many cases by the real tealer."""
import json
import os
import sys
from multiprocessing import Pool

VERIF = os.path.dirname(os.path.dirname(os.path.abspath(__file__)))
if VERIF not in sys.path:
    sys.path.insert(0, VERIF)


def _one(args):
    case, want, variant = args
    from harness.render import render
    from harness.observe import observe_program
    case = dict(case)
    case["teal"] = render(case["prog"])
    case["obs"] = observe_program(case["teal"], want=want)
    return case


def observe_cases(cases, want=("cfg", "func", "ctx", "det"), procs=None):
    procs = procs or int(os.environ.get("VERIF_WORKERS", "16"))
    from harness.observe import _load, _detector_classes
    _load()                 # import tealer once in the parent; workers are forked from it
    _detector_classes()
    with Pool(procs) as pool:
        return pool.map(_one, [(c, want, None) for c in cases], chunksize=8)
