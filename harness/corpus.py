"""Generated corpora and their observations (shared by the checks, cached by content)."""
import json
import os

from harness import framework as fw
from harness.tlcrun import gen_cases, SPEC
from harness.obsrun import observe_cases

HARNESS = os.path.dirname(os.path.abspath(__file__))


def cases_for(family, nrandom, seed, sentinels=True):
    key = ["cases", family, nrandom, seed, sentinels,
           fw.tree_hash([os.path.join(SPEC, f) for f in ("Gen.tla", "GenEmit.tla", "Teal.tla")])[:0],
           _files_hash([os.path.join(SPEC, f) for f in ("Gen.tla", "GenEmit.tla", "Teal.tla")])]

    def build():
        cases, res = gen_cases(family, nrandom, seed, sentinels)
        return {"cases": cases, "states": res["states"], "distinct": res["distinct"]}
    return fw.cached(key, build)


def _files_hash(paths):
    import hashlib
    h = hashlib.sha256()
    for p in paths:
        with open(p, "rb") as fh:
            h.update(fh.read())
    return h.hexdigest()[:16]


def observed(family, nrandom, seed, want, sentinels=True):
    """Cases with the real tool's observation attached."""
    gen = cases_for(family, nrandom, seed, sentinels)
    key = ["obs", family, nrandom, seed, sentinels, list(want), fw.tree_hash(),
           _files_hash([os.path.join(HARNESS, f) for f in ("observe.py", "render.py", "obsrun.py")]),
           _files_hash([os.path.join(SPEC, f) for f in ("Gen.tla", "GenEmit.tla", "Teal.tla")])]

    def build():
        return observe_cases(gen["cases"], want=tuple(want), procs=int(os.environ.get("VERIF_OBS_PROCS", "8")))
    return fw.cached(key, build), gen


def write_obs_file(cases, path, fields=("pid", "prog", "obs"), extra=None):
    os.makedirs(os.path.dirname(path), exist_ok=True)
    doc = {"cases": [{k: c[k] for k in fields} for c in cases]}
    doc.update(extra or {})
    with open(path, "w") as fh:
        json.dump(doc, fh)
    return path


def SPEC_FILES(names=None):
    """Specification modules a pipeline depends on (all of them when names is None)."""
    if names is None:
        return sorted(os.path.join(SPEC, f) for f in os.listdir(SPEC) if f.endswith(".tla"))
    # the generator modules are part of EVERY key: a cached judgement is only meaningful for the corpus it was made on
    names = list(names) + [n for n in ("Gen", "GenEmit", "Prng", "Teal") if n not in names]
    return [os.path.join(SPEC, n + ".tla") for n in names]


def HARNESS_FILES(extra=()):
    """Harness files whose content decides what a pipeline computes."""
    base = ["observe.py", "render.py", "obsrun.py", "tlcrun.py", "corpus.py", "checks/prog.py"]
    return [os.path.join(HARNESS, f) for f in base + list(extra)]
