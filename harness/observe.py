"""Run the REAL tealer (from the working tree named by TEALER_REPO, default
/repo) on generated programs and project what it computed into plain JSON.

Only public attributes are read.  The projection is what the TLA+ check
modules judge; it contains no expectation of its own.  JSON has no nulls
(TLC's JsonDeserialize rejects them): "none" is -1 / "" / [].
"""
import io
import json
import logging
import os
import sys
import contextlib
import traceback

REPO = os.environ.get("TEALER_REPO", "/repo")
if REPO not in sys.path:
    sys.path.insert(0, REPO)

U64MAX_SENTINEL = 2147483647

_loaded = False


def _load():
    global _loaded
    if _loaded:
        return
    logging.disable(logging.CRITICAL)
    import tealer  # noqa: F401
    import tealer.utils.command_line.common  # noqa: F401  (pulls in the whole tool once, before forking)
    assert os.path.realpath(tealer.__file__).startswith(os.path.realpath(REPO)), (
        "tealer imported from %s, expected under %s" % (tealer.__file__, REPO))
    logging.disable(logging.CRITICAL)
    _loaded = True


DETECTORS = ["rekey-to", "can-close-account", "can-close-asset", "missing-fee-check",
             "is-updatable", "is-deletable", "unprotected-updatable", "unprotected-deletable",
             "group-size-check"]


_DET = None


def _detector_classes():
    global _DET
    if _DET is None:
        from tealer.utils.command_line.common import get_detectors_and_printers
        dets, _ = get_detectors_and_printers()
        _DET = {d.NAME: d for d in dets}
    return _DET


def _num(v):
    if v >= 2 ** 31 - 1:
        if v == 2 ** 64 - 1:
            return U64MAX_SENTINEL
        raise ValueError("integer %d not representable for TLC" % v)
    return int(v)


def _addr(a):
    from harness.render import ADDR_NAMES
    poss = []
    for x in a.possible_addr:
        poss.append(ADDR_NAMES.get(x, x))
    return {"any": bool(a.any_addr), "no": bool(a.no_addr), "poss": sorted(poss)}


def _ctx_flat(c):
    return {
        "sizes": sorted(int(x) for x in c.group_sizes),
        "indices": sorted(int(x) for x in c.group_indices),
        "kinds": sorted(str(k) for k in c.transaction_types),
        "rekey": _addr(c.rekeyto), "close": _addr(c.closeto),
        "aclose": _addr(c.assetcloseto), "sender": _addr(c.sender),
        "fee": _num(c.max_fee), "feeunk": bool(c.max_fee_unknown),
    }


def _ctx(c):
    """Block context with its 62 sub-contexts pooled by content."""
    pool, index = [], {}

    def put(x):
        flat = _ctx_flat(x)
        key = json.dumps(flat, sort_keys=True)
        if key not in index:
            index[key] = len(pool) + 1          # 1-based for TLA+
            pool.append(flat)
        return index[key]
    out = _ctx_flat(c)
    out["G"] = [put(c.gtxn_context(i)) for i in range(16)]
    out["A"] = [put(c.absolute_context(i)) for i in range(16)]
    out["R"] = [put(c.relative_context(k)) for k in list(range(-15, 0)) + list(range(1, 16))]
    out["pool"] = pool
    return out


def _block(b, err=False):
    from tealer.teal.instructions.instructions import TealerCustomErrInstruction
    is_err = isinstance(b.entry_instr, TealerCustomErrInstruction)
    rec = {
        "id": int(b.idx),
        "lines": [int(i.line) for i in b.instructions],
        "text": [str(i) for i in b.instructions],
        "next": [int(x.idx) for x in b.next],
        "prev": [int(x.idx) for x in b.prev],
        "iscall": bool(b.is_callsub_block),
        "isretsub": bool(b.is_retsub_block),
        "callee": "",
        "retpt": -1,
        "sub": "",
        "iserr": is_err,
        "cost": int(b.cost),
        "comments": list(b.tealer_comments),
    }
    try:
        rec["sub"] = b.subroutine.name
    except Exception:  # noqa: BLE001
        rec["sub"] = "?"
    if b.is_callsub_block:
        rec["callee"] = b.called_subroutine.name
        rp = b.sub_return_point
        rec["retpt"] = int(rp.idx) if rp is not None else -1
    return rec


def _sub(s):
    return {
        "name": s.name,
        "entry": int(s.entry.idx),
        "blocks": sorted(int(b.idx) for b in s.blocks),
        "exits": sorted(int(b.idx) for b in s.exit_blocks),
        "retsubs": sorted(int(b.idx) for b in s.retsub_blocks),
        "callers": [int(b.idx) for b in s.caller_blocks],
        "retpts": [int(b.idx) for b in s.return_point_blocks],
    }


def observe_program(text, want=("cfg", "func", "ctx", "det"), detectors=DETECTORS, name="c"):
    """Returns the observation record for one program text."""
    _load()
    from tealer.utils.command_line.common import init_tealer_from_single_contract
    from tealer.utils.analyses import leaf_block_global
    obs = {"ok": True, "exc": ""}
    err = io.StringIO()
    out = io.StringIO()
    try:
        with contextlib.redirect_stderr(err), contextlib.redirect_stdout(out):
            tealer = init_tealer_from_single_contract(text, name)
            teal = tealer.contracts[name]
            func = teal.functions[name]
            obs["version"] = int(teal.version)
            obs["mode"] = str(teal.mode)
            obs["ctype"] = str(teal.contract_type)
            obs["instrs"] = [{"line": int(i.line), "text": str(i)} for i in teal.instructions]
            if "cfg" in want:
                obs["bbs"] = [_block(b) for b in teal.bbs]
                obs["main"] = _sub(teal.main)
                obs["subs"] = [_sub(s) for s in teal.subroutines.values()]
            if "func" in want or "ctx" in want or "det" in want:
                fb = sorted(func.blocks, key=lambda b: b.idx)
                obs["fblocks"] = [_block(b) for b in fb]
                obs["fleaf"] = sorted(int(b.idx) for b in fb if leaf_block_global(b))
                obs["fentry"] = int(func.entry.idx)
                obs["fsubs"] = [
                    {"name": s.name,
                     "callers": sorted(int(b.idx) for b in func.caller_blocks(s)),
                     "retpts": sorted(int(b.idx) for b in func.return_point_blocks(s))}
                    for s in func.subroutines.values()]
                obs["fmain"] = _sub(func.main)
            if "ctx" in want:
                obs["ctx"] = {str(b.idx): _ctx(func.transaction_context(b)) for b in func.blocks}
            if "det" in want:
                classes = _detector_classes()
                det = {}
                for d in detectors:
                    tealer._detectors = []      # fresh registration per detector
                    tealer.register_detector(classes[d])
                    res = tealer.run_detectors()[0]
                    paths, js = [], []
                    for r in res:
                        paths += [[int(b.idx) for b in p] for p in r.paths]
                        j = r.to_json()
                        js.append({"type": j["type"], "count": int(j["count"]),
                                   "paths": [{"short": p["short"],
                                              "blocks": [list(bl) for bl in p["blocks"]]}
                                             for p in j["paths"]]})
                    det[d] = {"paths": paths, "json": js}
                obs["det"] = det
    except BaseException as e:  # noqa: BLE001  (SystemExit from the parser included)
        obs["ok"] = False
        obs["exc"] = "%s: %s" % (type(e).__name__, e)
        obs["tb"] = traceback.format_exc(limit=6)
        if "cfg" in want and "bbs" not in obs:
            # the analysis failed: the graph parse_teal() builds on its own is still worth judging (C04 / C05)
            try:
                from tealer.teal.parse_teal import parse_teal
                with contextlib.redirect_stderr(err), contextlib.redirect_stdout(out):
                    teal = parse_teal(text, name)
                    obs["instrs"] = [{"line": int(i.line), "text": str(i)} for i in teal.instructions]
                    obs["bbs"] = [_block(b) for b in teal.bbs]
                    obs["main"] = _sub(teal.main)
                    obs["subs"] = [_sub(s) for s in teal.subroutines.values()]
            except BaseException:  # noqa: BLE001
                obs.pop("bbs", None)
    obs["parsed"] = "bbs" in obs or (obs["ok"] and "cfg" not in want)
    obs["stderr"] = err.getvalue()[-2000:]
    return obs


def main():
    """stdin: ndjson cases {fam,k,desc,prog}; stdout: ndjson {.., teal, obs}"""
    from harness.render import render
    want = tuple(os.environ.get("OBS_WANT", "cfg,func,ctx,det").split(","))
    for line in sys.stdin:
        case = json.loads(line)
        case["teal"] = render(case["prog"])
        case["obs"] = observe_program(case["teal"], want=want)
        sys.stdout.write(json.dumps(case) + "\n")


if __name__ == "__main__":
    sys.path.insert(0, os.path.dirname(os.path.dirname(os.path.abspath(__file__))))
    main()
