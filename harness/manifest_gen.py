"""Regenerates MANIFEST.json from the table below (kept in one place so it stays valid)."""
import json
import os

VERIF = os.path.dirname(os.path.dirname(os.path.abspath(__file__)))

CHECKS = {
    "C04": dict(level="model_checking", design_ref="DESIGN.md §5 C04",
                text="The real tool's graph for every generated program (layout grammar: dead code that branches, "
                     "back edges, branch/call last, branch to next line, 0-2 subroutines before/after main; plus the "
                     "check families) is compared clause by clause with Cfg!Graph by TLC (CfgCheck.tla).",
                note="trusted: TLC; Cfg.tla as the reading of the property; the JSON projection of public attributes",
                technique="TLA+ reference CFG (Cfg.tla) + TLC judging observations of the real parser on TLC-generated programs"),
    "C05": dict(level="model_checking", design_ref="DESIGN.md §5 C05",
                text="Subroutine set, membership, exits, call sites, return points and the per-function caller tables "
                     "recorded by the real tool are compared with Cfg.tla for every generated program.",
                note="trusted: TLC; Cfg.tla; the JSON projection of public attributes",
                technique="TLA+ reference call structure (Cfg.tla) + TLC judging observations of the real parser"),
}

NOT_YET = {}


def main():
    props = [json.loads(l) for l in open(os.path.join(VERIF, "properties.jsonl"))]
    checks = []
    for p in props:
        pid = p["id"]
        if pid not in CHECKS:
            continue
        c = CHECKS[pid]
        checks.append({
            "property_id": pid,
            "quick_cmd": "bin/check %s --tier quick" % pid,
            "thorough_cmd": "bin/check %s --tier thorough" % pid,
            "evidence_file": "evidence/%s.json" % pid,
            "replay_cmd_template": "bin/check %s --replay {path}" % pid,
            "engine": "tlc",
            "level_claimed": {"category": c["level"], "text": c["text"], "design_ref": c["design_ref"]},
            "level_note": c["note"],
            "technique": c["technique"],
        })
    na = [{"property_id": p["id"],
           "reason": NOT_YET.get(p["id"], "not built yet in this session; planned per DESIGN.md §5/§11 "
                                          "(the specification applies, the check is not registered until it runs clean)")}
          for p in props if p["id"] not in CHECKS]
    man = {
        "version": 1,
        "setup_cmd": "bin/setup",
        "hooks": {
            "guard": "TEALER_VERIF",
            "enable": "TEALER_VERIF=1 in the environment of the harness process (no rebuild needed; pure Python)",
            "baseline_off_cmd": "cd /repo && env -u TEALER_VERIF /venv/bin/python -m pytest -ra -q -p no:cacheprovider "
                                "--timeout=900 --continue-on-collection-errors",
            "source_commits": [],
            "add_only": True,
        },
        "engines": [
            {"name": "tlc", "path": "/usr/local/bin/tlc",
             "serves_properties": sorted(CHECKS),
             "kind_free_text": "TLC 1.8 explicit-state model checker on the TLA+ modules in /verif/spec; "
                               "generates the programs, explores the reference semantics and judges the real tool's "
                               "recorded observations"},
        ],
        "checks": checks,
        "not_applicable": na,
        "notes": "Model-based verification with an explicit TLA+ specification; see DESIGN.md.",
    }
    with open(os.path.join(VERIF, "MANIFEST.json"), "w") as fh:
        json.dump(man, fh, indent=1)


if __name__ == "__main__":
    main()
