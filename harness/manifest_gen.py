"""Regenerates MANIFEST.json from the table below (kept in one place so it stays valid)."""
import json
import os

VERIF = os.path.dirname(os.path.dirname(os.path.abspath(__file__)))

TLC_NOTE = "trusted: TLC; the reference modules named in the text as the reading of the property; the JSON projection of public attributes (harness/observe.py); the pretty-printer (harness/render.py)"

CHECKS = {
    "C01": dict(level="model_checking", design_ref="DESIGN.md §5 C01",
                text="For every generated program (families f1/f2/f3/layout of Gen.tla) TLC explores every execution of the "
                     "concrete AVM machine (Avm.tla) over one representative input per region cut by the program's constants "
                     "(Reps.tla).  In every accepting state each of the nine detectors whose dangerous value is carried must "
                     "have reported a path on the real tool (ProgCheck.tla, clause c01.miss).",
                technique="TLC exploration of a TLA+ AVM semantics with the real detectors' output bound in as data"),
    "C03": dict(level="model_checking", design_ref="DESIGN.md §5 C03",
                text="PathSem.tla (comparisons of one governed field exact, everything else free) is explored by TLC for every "
                     "program of the direct-check families, every governed field and value; ExactJudge.tla then demands that a "
                     "detector reported only if some valid path consists of blocks admitting its dangerous value (a walk that runs off "
                     "the end of the text is accepting only with exactly one value on the stack).",
                technique="TLC exploration of the abstract walk semantics (PathSem/ExactWalk) + TLC-evaluated judgement (ExactJudge)"),
    "C04": dict(level="model_checking", design_ref="DESIGN.md §5 C04",
                text="Static: the real tool's graph for every generated program is compared clause by clause with Cfg!Graph "
                     "(CfgCheck.tla).  Dynamic: every step of every Avm execution must be an edge of the OBSERVED graph, blocks "
                     "entered at their first and left at their last instruction, retsub returning to the block after its own "
                     "callsub (ProgCheck.tla, clauses c04.walk.*).",
                technique="TLA+ reference CFG (Cfg.tla) + TLC exploration of Avm executions as walks of the observed graph"),
    "C05": dict(level="model_checking", design_ref="DESIGN.md §5 C05",
                text="Subroutine set, membership, exits, call sites, return points and the per-function caller tables "
                     "recorded by the real tool are compared with Cfg.tla for every generated program.",
                technique="TLA+ reference call structure (Cfg.tla) + TLC judging observations of the real parser"),
    "C06": dict(level="model_checking", design_ref="DESIGN.md §5 C06",
                text="Soundness: in every accepting Avm state the group's size and own index are in the recorded sets of every "
                     "visited block (all (size,index) pairs).  Exactness on the direct-check families: recorded sets equal the "
                     "values admitted by some accepting PathSem walk through the block (call-site-merged walks allowed for "
                     "subroutines with several call sites); index < some size.",
                technique="TLC exploration of Avm.tla (soundness) and of PathSem.tla (exactness) judged against recorded contexts"),
    "C07": dict(level="model_checking", design_ref="DESIGN.md §5 C07",
                text="In every accepting Avm state, over all well-formed (TypeEnum, OnCompletion, ApplicationID), the recorded "
                     "kind set of every visited block contains Pay / Axfer / ApplUpdateApplication / ApplDeleteApplication when "
                     "the transaction is of that kind.",
                technique="TLC exploration of a TLA+ AVM semantics with recorded kind sets bound in"),
    "C08": dict(level="model_checking", design_ref="DESIGN.md §5 C08",
                text="Soundness in every accepting Avm state for RekeyTo/CloseRemainderTo/AssetCloseTo/Sender over {zero, literal, "
                     "creator, fresh}; converse: a block through which no accepting PathSem walk admits a fresh address is not "
                     "recorded as 'any address'.",
                technique="TLC exploration of Avm.tla and PathSem.tla judged against recorded address information"),
    "C09": dict(level="model_checking", design_ref="DESIGN.md §5 C09",
                text="Soundness: Fee <= recorded bound in every accepting Avm state (representatives c-1,c,c+1, 0, 272000, 272001, "
                     "2^64-1).  Exactness on the direct-check families: the bound equals the largest admitted representative.",
                technique="TLC exploration of Avm.tla and PathSem.tla judged against recorded fee bounds"),
    "C10": dict(level="model_checking", design_ref="DESIGN.md §5 C10",
                text="In every accepting Avm state over groups with up to three members read: absolute_context(i) admits member i, "
                     "gtxn_context(own index) admits the own transaction, relative_context(k) admits member index+k; members "
                     "nobody reads are represented by arbitrary transactions.",
                technique="TLC exploration of a TLA+ AVM group semantics with the recorded sub-contexts bound in"),
}
CHECKS.update({
    "C02": dict(level="model_checking", design_ref="DESIGN.md §5 C02",
                text="Every path reported by each of the nine detectors on the generated programs is consumed block by block "
                     "(one TLC behaviour per path) by the walk machine over Cfg!Graph with an explicit call stack and a stack of "
                     "per-activation visited sets; start at entry, matched returns, leaf end, no revisit within an activation, no "
                     "block the tool's own context excludes, no duplicate, renderings equal the block sequence; plus the verdict "
                     "clauses against the tool's own contexts (SearchCheck.tla).",
                technique="trace validation of reported paths against a TLA+ walk machine (SearchCheck.tla) with TLC"),
    "C11": dict(level="model_checking", design_ref="DESIGN.md §5 C11",
                text="(a) every opcode x immediate representative: declared pops/pushes equal AvmTable.tla (LineCheck.tla); (b) "
                     "random straight-line programs over the whole opcode table, shuffle-heavy family included: each "
                     "reconstructed producer (instruction, output index) or 'unknown' equals the tagged execution with the "
                     "AVM's own stack effects (SeqCheck.tla).",
                technique="TLA+ opcode table + tagged stack execution in TLA+, judged by TLC against the real stack-AST builder"),
    "C16": dict(level="exploration", design_ref="DESIGN.md §5 C16",
                text="Every opcode of AvmTable with representatives of every immediate class (integer spellings dec/hex/octal, "
                     "byte spellings hex/base64/base32/quoted, fields, labels, named constants) in four whitespace/comment "
                     "variants is parsed by the real parser; opcode, canonical printed form, round trip, line number and "
                     "near-miss mnemonics are judged by LineCheck.tla.",
                technique="TLC-enumerated line cases (LineGen.tla) parsed by the real parser, judged by TLC (LineCheck.tla)"),
    "C17": dict(level="exploration", design_ref="DESIGN.md §5 C17",
                text="detect (text, JSON, --filter-paths) and the printers cfg, subroutine-cfg, call-graph, human-summary, "
                     "transaction-context are run through tealer's own main() on every generated layout program (dead code "
                     "that branches/calls, loops, recursion, branch or call last) and samples of the check families; any "
                     "non-zero exit or exception is a violation (RenderCheck.tla, clauses c17.*).",
                technique="TLC-generated adversarial layouts replayed through the real CLI entry point; outcomes judged by TLC"),
    "C18": dict(level="exploration", design_ref="DESIGN.md §5 C18",
                text="The exported DOT files (cfg, per-subroutine, call graph, per-path, transaction-context) and the JSON "
                     "envelope are parsed and compared with what RenderCheck.tla derives from Cfg!Graph and the tool's own "
                     "contexts and paths: node and edge sets, call boxes, highlighted path blocks, annotations, count, success, "
                     "--filter-paths.",
                technique="TLA+ definition of the exports' denotation (RenderCheck.tla) judged by TLC on parsed output files"),
    "C19": dict(level="exploration", design_ref="DESIGN.md §5 C19",
                text="Per instruction: version, mode and cost (at version 8 and 1) equal AvmTable.tla. Per program (declared "
                     "version 1-8 or none, random lines over the whole table, one case in four with dead code after an early return): flagged lines, field flags, version, mode, mixed-"
                     "mode report, contract type and block cost equal what SeqCheck.tla derives from the table.",
                technique="TLA+ opcode/field table (AvmTable.tla) + TLC judging the real parser's classification"),
    "C20": dict(level="model_checking", design_ref="DESIGN.md §5 C20",
                text="For each generated program and each query (start label or *, patterns of 1-3 instructions cut from the "
                     "text, absent pattern, unknown label) the real match_regex() is judged against reachability on the "
                     "instruction graph computed in TLA+ (RegexCheck.tla): matches, covered subset of on-path, on-path subset "
                     "of covered.",
                technique="TLA+ instruction-level reachability (RegexCheck.tla) evaluated by TLC against the real regex engine"),
})
CHECKS.update({
    "C12": dict(level="model_checking", design_ref="DESIGN.md §5 C12",
                text="Every dispatch path of CutGen.tla (simple paths of up to four blocks from the entry) is given to the real "
                     "construct_function(), all functions of a contract in one Teal object.  Static clauses (CutCheck.tla): the "
                     "function graph is the main graph with the off-path successors replaced by error blocks, same ids/lines/text, "
                     "shared subroutines, contract graph unchanged, contexts independent of the other functions built.  Dynamic: "
                     "TLC runs Avm.tla; every accepting execution whose entered-block sequence starts with the path must be "
                     "admitted by the function's contexts.  The same paths named as functions of ONE group configuration "
                     "(init_tealer_from_config) must yield the functions construct_function builds for each path alone.",
                technique="TLA+ path surgery (CutCheck!Cut) + TLC exploration of Avm executions restricted to the dispatch path"),
    "C13": dict(level="model_checking", design_ref="DESIGN.md §5 C13",
                text="Group configurations of GroupGen.tla (1-3 transactions over 12 contracts, types, absolute indices, relative "
                     "offsets) are analysed by the real init_tealer_from_config() with 8 detectors; the reported vulnerable "
                     "transactions must equal Group!Vulnerable (eligibility, own / absolute / relative clearing with the offset "
                     "direction of the property) evaluated on the tool's own leaf contexts, and a one-transaction group must agree "
                     "with the single-contract verdict.  Concrete side (GroupSem.tla): for every eligible transaction the tool did "
                     "not report, every concrete group consistent with the configuration (size up to 5, all placements, the fields "
                     "some member reads, the target carrying the dangerous value) is run on the Avm machine for every member; an "
                     "approved group is a violation (c13.sound).",
                technique="TLA+ verdict rules (Group.tla) and concrete group semantics on the Avm machine (GroupSem.tla) judged by TLC "
                          "against the real group-mode detectors on TLC-generated configurations"),
    "C14": dict(level="model_checking", design_ref="DESIGN.md §5 C14",
                text="Histories of Session.tla (all ordered pairs of contracts, and random histories of up to three actions: analyse contract c with detector order o, re-run) over fourteen "
                     "sensitising contracts, all analysed under one contract name, are replayed each in one fresh interpreter under rotating PYTHONHASHSEED values; the "
                     "digests of contexts / ordered paths / JSON recorded after every action are validated as a trace of Session "
                     "with Result = the digest of a fresh single-action process (SessionTrace.tla).  Worklist orders: the "
                     "forward/backward dataflow engine is the state machine Solver.tla; runs of the real engine recorded through "
                     "the TEALER_VERIF hooks are validated event by event (SolverTrace.tla, corrupted copies must be rejected) and "
                     "TLC explores every worklist order on the recorded graph and constraints, all of which must end with the "
                     "recorded result, and on every transition of every order the engine's design properties Ascending, Progress "
                     "(termination measure), Bounded, FwdFix / BwdFix (empty worklist = fixpoint) and BwdInFwd (SolverAny.tla).",
                technique="trace validation of recorded process histories and of hook-recorded runs of the dataflow engine against "
                          "TLA+ specifications with TLC; exhaustive exploration of all worklist orders on the recorded instances"),
    "C15": dict(level="exploration", design_ref="DESIGN.md §5 C15",
                text="Rewrite.tla defines the rewrites (rename, hex, oct, numeric, pushint, intcblock+intc, padding, moving "
                     "subroutines, compositions) with their line maps; TLC shows each generated pair equivalent on Avm.tla and "
                     "RewriteCheck.tla demands equal per-block contexts and equal path sets under the induced block map; comment / "
                     "blank-line / indentation variants come from the pretty-printer.",
                technique="TLA+ rewrite relation justified on the Avm machine, pairs analysed by the real tool and compared by TLC"),
})
for _c in CHECKS.values():
    _c.setdefault("note", TLC_NOTE)

NOT_YET = {}


def main():
    props = [json.loads(l) for l in open(os.path.join(VERIF, "properties.jsonl"))]
    checks = []
    for p in props:
        pid = p["id"]
        if pid not in CHECKS:
            continue
        c = CHECKS[pid]
        checks.append({
            "property_id": pid,
            "quick_cmd": "bin/check %s --tier quick" % pid,
            "thorough_cmd": "bin/check %s --tier thorough" % pid,
            "evidence_file": "evidence/%s.json" % pid,
            "replay_cmd_template": "bin/check %s --replay {path}" % pid,
            "engine": "tlc",
            "level_claimed": {"category": c["level"], "text": c["text"], "design_ref": c["design_ref"]},
            "level_note": c["note"],
            "technique": c["technique"],
        })
    na = [{"property_id": p["id"],
           "reason": NOT_YET.get(p["id"], "not built yet in this session; planned per DESIGN.md §5/§11 "
                                          "(the specification applies, the check is not registered until it runs clean)")}
          for p in props if p["id"] not in CHECKS]
    man = {
        "version": 1,
        "setup_cmd": "bin/setup",
        "hooks": {
            "guard": "TEALER_VERIF",
            "enable": "TEALER_VERIF=1 in the environment of the harness process (no rebuild needed; pure Python)",
            "baseline_off_cmd": "cd /repo && env -u TEALER_VERIF /venv/bin/python -m pytest -ra -q -p no:cacheprovider "
                                "--timeout=900 --continue-on-collection-errors",
            "source_commits": ["2ffe9af93930e3e20f43003a7376a1029f0d414c"],
            "add_only": True,
        },
        "engines": [
            {"name": "tlc", "path": "/usr/local/bin/tlc",
             "serves_properties": sorted(CHECKS),
             "kind_free_text": "TLC 1.8 explicit-state model checker on the TLA+ modules in /verif/spec; "
                               "generates the programs, explores the reference semantics and judges the real tool's "
                               "recorded observations"},
        ],
        "checks": checks,
        "not_applicable": na,
        "notes": "Model-based verification with an explicit TLA+ specification; see DESIGN.md.",
    }
    with open(os.path.join(VERIF, "MANIFEST.json"), "w") as fh:
        json.dump(man, fh, indent=1)


if __name__ == "__main__":
    main()
