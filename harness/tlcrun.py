"""Thin driver around TLC: write a .cfg, run a module from /verif/spec, collect
marker lines (@@P generated cases, @@W witnesses, @@S statistics) and TLC's own
state counts.  No judgement happens here."""
import json
import os
import re
import shutil
import subprocess
import tempfile
import time

VERIF = os.path.dirname(os.path.dirname(os.path.abspath(__file__)))
SPEC = os.path.join(VERIF, "spec")
OUT = os.path.join(VERIF, "out")
WORKERS = int(os.environ.get("VERIF_WORKERS", "16"))


class TlcError(Exception):
    pass


def _unquote(line):
    """TLC prints a TLA+ string value quoted and escaped; recover its text."""
    line = line.strip()
    try:
        return json.loads(line)
    except Exception:  # noqa: BLE001
        s = line[1:-1] if line.startswith('"') and line.endswith('"') else line
        return s.replace('\\"', '"').replace("\\\\", "\\")


def marker_lines(stdout, tag):
    """All payloads printed as PrintT("@@<tag> " \\o json \\o " <tag>@@")."""
    res = []
    start, end = "@@%s " % tag, " %s@@" % tag
    for line in stdout.splitlines():
        if start not in line:
            continue
        txt = _unquote(line)
        i, j = txt.find(start), txt.rfind(end)
        if i < 0 or j < 0:
            raise TlcError("truncated marker line: %r" % line[:200])
        res.append(json.loads(txt[i + len(start):j]))
    return res


_STATS = re.compile(r"(\d+) states generated, (\d+) distinct states found, (\d+) states left on queue")


def run_tlc(module, cfg, env=None, workers=None, timeout=3600, extra=(), keep=False, simulate=None, extra_modules=None):
    """Runs TLC on spec/<module>.tla with the given cfg text.
    Returns dict(stdout, states, distinct, wall_s, ok, coverage)."""
    os.makedirs(OUT, exist_ok=True)
    work = tempfile.mkdtemp(prefix="tlc-", dir=OUT)
    try:
        # TLC resolves EXTENDS relative to the spec directory of the root module
        for f in os.listdir(SPEC):
            if f.endswith(".tla"):
                os.symlink(os.path.join(SPEC, f), os.path.join(work, f))
        for name, text in (extra_modules or {}).items():      # generated wrapper modules (constants as definitions)
            with open(os.path.join(work, name + ".tla"), "w") as fh:
                fh.write(text)
        cfg_path = os.path.join(work, module + ".cfg")
        with open(cfg_path, "w") as fh:
            fh.write(cfg)
        cmd = ["tlc", "-workers", str(workers or WORKERS), "-metadir", os.path.join(work, "meta"),
               "-noGenerateSpecTE", "-config", cfg_path]
        if simulate:
            cmd += ["-simulate", simulate]
        cmd += list(extra) + [os.path.join(work, module + ".tla")]
        e = dict(os.environ)
        e.update(env or {})
        t0 = time.time()
        p = subprocess.run(cmd, cwd=work, env=e, stdout=subprocess.PIPE, stderr=subprocess.STDOUT,
                           text=True, timeout=timeout)
        wall = time.time() - t0
        out = p.stdout
        m = None
        for m in _STATS.finditer(out):
            pass
        res = {
            "stdout": out, "wall_s": wall, "rc": p.returncode,
            "states": int(m.group(1)) if m else 0,
            "distinct": int(m.group(2)) if m else 0,
            "ok": ("Model checking completed. No error has been found." in out) or
                  (simulate is not None and p.returncode == 0),
        }
        if not res["ok"]:
            tail = "\n".join(l for l in out.splitlines() if "@@" not in l)[-3000:]
            res["error_tail"] = tail
        return res
    finally:
        if not keep:
            shutil.rmtree(work, ignore_errors=True)


def require_ok(res, what):
    if not res["ok"]:
        raise TlcError("TLC failed in %s:\n%s" % (what, res.get("error_tail", "")))


def gen_cases(family, nrandom, seed, sentinels=True, workers=None):
    """Generated cases of Gen.tla (deduplicated by program text)."""
    cfg = """INIT Init
NEXT Next
INVARIANT Emit
CHECK_DEADLOCK FALSE
CONSTANTS
  Seed = %d
  Family = "%s"
  NRandom = %d
  WithSentinels = %s
""" % (seed, family, nrandom, "TRUE" if sentinels else "FALSE")
    res = run_tlc("GenEmit", cfg, workers=workers)
    require_ok(res, "GenEmit(%s)" % family)
    cases = marker_lines(res["stdout"], "P")
    seen, uniq = set(), []
    for c in cases:
        key = json.dumps(c["prog"], sort_keys=True)
        if key in seen:
            continue
        seen.add(key)
        uniq.append(c)
    uniq.sort(key=lambda c: (c["fam"], c["k"], json.dumps(c["desc"], sort_keys=True)))
    for i, c in enumerate(uniq, 1):
        c["pid"] = i
    return uniq, res
