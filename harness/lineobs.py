"""Observation of the real parser on single source lines (C16 / C11a / C19 per instruction)."""
import contextlib
import io
import os
import sys

VERIF = os.path.dirname(os.path.dirname(os.path.abspath(__file__)))
if VERIF not in sys.path:
    sys.path.insert(0, VERIF)

TAIL = "\nla:\nlb:\nlc:\nlab_1:\n"


def _parse(prog):
    from tealer.teal.parse_teal import parse_teal
    out, err = io.StringIO(), io.StringIO()
    with contextlib.redirect_stdout(out), contextlib.redirect_stderr(err):
        return parse_teal(prog)


def _ins_at(teal, line):
    for i in teal.instructions:
        if i.line == line:
            return i
    return None


def observe_line(kind, text):
    from harness.observe import _load
    _load()
    from tealer.teal.instructions.parse_instruction import parse_line
    if kind == "miss":
        out = io.StringIO()
        try:
            with contextlib.redirect_stdout(out):
                ins = parse_line(text)
            return {"ok": True, "cls": type(ins).__name__, "str": getattr(ins, "verbatim_line", str(ins))}
        except BaseException as e:  # noqa: BLE001
            return {"ok": False, "cls": type(e).__name__, "str": str(e)[:100]}
    obs = {"ok": False, "exc": ""}
    try:
        teal = _parse("#pragma version 8\n" + text + TAIL)
        ins = _ins_at(teal, 2)
        if ins is None:
            obs["exc"] = "no instruction at line 2"
            return obs
        s = str(ins)
        fld = getattr(ins, "field", None)
        obs.update({"ok": True, "cls": type(ins).__name__, "str": s, "mnemonic": s.split(" ")[0] if s else "",
                    "line": int(ins.line), "pop": int(ins.stack_pop_size), "push": int(ins.stack_push_size),
                    "ver": int(ins.version), "mode": str(ins.mode), "cost8": int(ins.cost),
                    "fver": int(getattr(fld, "version", 1)) if fld is not None else 1})
        teal1 = _parse("#pragma version 1\n" + text + TAIL)
        i1 = _ins_at(teal1, 2)
        obs["cost1"] = int(i1.cost) if i1 is not None else -1
        try:
            out = io.StringIO()
            with contextlib.redirect_stdout(out):
                re = parse_line(s)
            obs.update({"re_ok": True, "re_cls": type(re).__name__, "re_str": str(re)})
        except BaseException as e:  # noqa: BLE001
            obs.update({"re_ok": False, "re_cls": type(e).__name__, "re_str": str(e)[:100]})
        variants = []
        for name, prog, want in (
                ("indent", "#pragma version 8\n  \t " + text + "  " + TAIL, 2),
                ("comment", "#pragma version 8\n" + text + "   // trailing // comment" + TAIL, 2),
                ("shift", "#pragma version 8\n// a comment line\n\n" + text + TAIL, 4)):
            try:
                t = _parse(prog)
                i = _ins_at(t, want)
                variants.append({"name": name, "cls": type(i).__name__ if i else "none", "str": str(i) if i else "",
                                 "line": int(i.line) if i else -1, "want_line": want})
            except BaseException as e:  # noqa: BLE001
                variants.append({"name": name, "cls": type(e).__name__, "str": str(e)[:80], "line": -1, "want_line": want})
        obs["variants"] = variants
    except BaseException as e:  # noqa: BLE001
        obs["exc"] = "%s: %s" % (type(e).__name__, str(e)[:120])
    return obs
