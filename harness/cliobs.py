"""Observation of the command line tool: every subcommand / printer / output format is run
in-process through tealer.__main__.main() (argv patched, cwd = a scratch directory), exit status and
exception class are recorded, and the files it wrote (DOT, JSON) are parsed into plain records.
Nothing is judged here."""
import contextlib
import html
import io
import json
import os
import re
import shutil
import sys
import tempfile
import traceback

VERIF = os.path.dirname(os.path.dirname(os.path.abspath(__file__)))
if VERIF not in sys.path:
    sys.path.insert(0, VERIF)

NODE_RE = re.compile(r'^(\w+)\[label=<<TABLE ALIGN="LEFT" COLOR="([^"]*)">', re.M)
EDGE_RE = re.compile(r'(\w+):s -> (\w+)(?::(\d+))?:n(?: \[color="([^"]*)"\])?;')
BOX_RE = re.compile(r'^(x\w+)\[label="Subroutine ([^"]*)"', re.M)
INS_RE = re.compile(r'(\d+)\. (.*?)</TD>', re.S)
COMMENT_RE = re.compile(r'<B>(.*?)</B>', re.S)


def parse_dot(text):
    """nodes: id -> {color, lines[], text[], comments[]}; edges: [[src, dst]]; boxes: [[name, sub]]"""
    nodes, order = {}, []
    # split the text into node chunks
    starts = [(m.start(), m.group(1), m.group(2)) for m in NODE_RE.finditer(text)]
    for i, (pos, nid, color) in enumerate(starts):
        end = text.find("</TABLE>>", pos)
        chunk = text[pos:end]
        rows = chunk.split("<TR>")
        comments = []
        if len(rows) > 1:
            m = COMMENT_RE.search(rows[1])
            if m:
                comments = [html.unescape(c)[3:] if html.unescape(c).startswith("// ") else html.unescape(c)
                            for c in m.group(1).split("<BR/>") if c]
        lines, texts = [], []
        for row in rows[2:]:
            # the instruction is the last "<line>. <text>" of the cell (comments precede it)
            cell = row
            ms = list(re.finditer(r'(?:^|>)(\d+)\. ', cell))
            if not ms:
                continue
            m = ms[-1]
            lines.append(int(m.group(1)))
            t = cell[m.end():cell.find("</TD>", m.end())]
            t = re.sub(r"</?[BI]>", "", t)
            texts.append(html.unescape(t))
        nodes[nid] = {"color": color, "lines": lines, "text": texts, "comments": comments}
        order.append(nid)
    edges = [[m.group(1), m.group(2)] for m in EDGE_RE.finditer(text)]
    boxes = [[m.group(1), m.group(2)] for m in BOX_RE.finditer(text)]
    return {"nodes": nodes, "edges": edges, "boxes": boxes}


def _run(argv):
    from tealer.__main__ import main
    out, err = io.StringIO(), io.StringIO()
    rec = {"cmd": " ".join(argv), "exit": 0, "exc": ""}
    old = sys.argv
    sys.argv = ["tealer"] + argv
    try:
        with contextlib.redirect_stdout(out), contextlib.redirect_stderr(err):
            main()
    except SystemExit as e:
        rec["exit"] = e.code if isinstance(e.code, int) else (0 if e.code is None else 1)
    except BaseException as e:  # noqa: BLE001
        rec["exit"] = -99
        rec["exc"] = "%s: %s" % (type(e).__name__, str(e)[:200])
        rec["tb"] = traceback.format_exc(limit=4)[-600:]
    finally:
        sys.argv = old
    rec["stdout"] = out.getvalue()
    return rec


COMMANDS = [
    ("detect", ["detect", "--contracts", "c.teal"]),
    ("detect-json", ["--json", "-", "detect", "--contracts", "c.teal"]),
    ("cfg", ["print", "cfg", "--contracts", "c.teal"]),
    ("subroutine-cfg", ["print", "subroutine-cfg", "--contracts", "c.teal"]),
    ("call-graph", ["print", "call-graph", "--contracts", "c.teal"]),
    ("human-summary", ["print", "human-summary", "--contracts", "c.teal"]),
    ("transaction-context", ["print", "transaction-context", "--contracts", "c.teal"]),
]


def observe_cli(text, filters=()):
    from harness.observe import _load
    _load()
    import logging
    work = tempfile.mkdtemp(prefix="cli-", dir=os.path.join(VERIF, "out", "work"))
    cwd = os.getcwd()
    res = {"cli": [], "dot": {}, "json": {}, "filters": []}
    try:
        os.chdir(work)
        with open("c.teal", "w") as fh:
            fh.write(text)
        for name, argv in COMMANDS:
            r = _run(argv)
            logging.disable(logging.CRITICAL)
            rec = {"name": name, "exit": r["exit"], "exc": r["exc"], "tb": r.get("tb", "")}
            res["cli"].append(rec)
            if name == "detect-json" and r["exit"] == 0 and not r["exc"]:
                out = r["stdout"]
                i = out.find("{")
                try:
                    j = json.loads(out[i:])
                    res["json"] = {"success": bool(j["success"]), "error": j["error"] or "",
                                   "result": [{"check": x["check"], "count": x["count"],
                                               "shorts": [p["short"] for p in x.get("paths", [])],
                                               # per path: the source lines of every listed block ("<line>: <ins>")
                                               "blines": [[[int(t.split(":", 1)[0]) for t in blk] for blk in p.get("blocks", [])]
                                                          for p in x.get("paths", [])]}
                                              for x in j["result"] if x.get("type") == "ExecutionPaths"]}
                except Exception as e:  # noqa: BLE001
                    rec["exc"] = "unparsable json: %s" % e
        for pat in filters:
            r = _run(["--json", "-", "detect", "--contracts", "c.teal", "--filter-paths", pat])
            logging.disable(logging.CRITICAL)
            out = r["stdout"]
            i = out.find("{")
            frec = {"pattern": pat, "exit": r["exit"], "exc": r["exc"], "result": []}
            if r["exit"] == 0 and not r["exc"] and i >= 0:
                j = json.loads(out[i:])
                frec["result"] = [{"check": x["check"], "count": x["count"],
                                   "shorts": [p["short"] for p in x.get("paths", [])]}
                                  for x in j["result"] if x.get("type") == "ExecutionPaths"]
            res["filters"].append(frec)
        base = os.path.join("tealer-export", "c")

        def rd(*p):
            path = os.path.join(base, *p)
            if not os.path.exists(path):
                return None
            with open(path) as fh:
                return fh.read()
        t = rd("full_cfg.dot")
        res["dot"]["full"] = parse_dot(t) if t is not None else {"nodes": {}, "edges": [], "boxes": [], "missing": True}
        subs = {}
        d = os.path.join(base, "print-subroutine-cfg")
        if os.path.isdir(d):
            for f in sorted(os.listdir(d)):
                with open(os.path.join(d, f)) as fh:
                    nm = "__main__" if f == "contract_shortened_cfg.dot" else f[len("subroutine_"):-len("_cfg.dot")]
                    subs[nm] = parse_dot(fh.read())
        res["dot"]["subs"] = subs
        t = rd("call-graph.dot")
        cg = []
        if t is not None:
            cg = [[m.group(1), m.group(2)] for m in re.finditer(r'^(\S+) -> (\S+);', t, re.M)]
        res["dot"]["callgraph"] = cg
        res["dot"]["callgraph_written"] = t is not None
        t = rd("print-transaction-context", "transaction-context.dot")
        res["dot"]["txnctx"] = parse_dot(t)["nodes"] if t is not None else {}
        paths = {}
        if os.path.isdir(base):
            for dn in sorted(os.listdir(base)):
                dd = os.path.join(base, dn)
                if os.path.isdir(dd) and not dn.startswith("print-"):
                    files = sorted(os.listdir(dd), key=lambda f: int(re.findall(r"-(\d+)\.dot$", f)[0]))
                    reds = []
                    for f in files:
                        with open(os.path.join(dd, f)) as fh:
                            pd = parse_dot(fh.read())
                        reds.append(sorted(int(n) for n, v in pd["nodes"].items() if v["color"] == "RED"))
                    paths[dn] = reds
        res["dot"]["paths"] = paths
    finally:
        os.chdir(cwd)
        shutil.rmtree(work, ignore_errors=True)
    return res
