"""Pretty-printer from the specification's instruction records to TEAL text.

Deliberately dumb: it decides nothing.  One instruction per line, line i of
the text is instruction i of the record list (so block/line numbers of the
specification and of the tool coincide).  Variants used by the rewrite
family (comments, blank lines, indentation) are applied by `render_variant`
which also returns the induced line map.
"""

ADDRS = {
    "ZERO": "AAAAAAAAAAAAAAAAAAAAAAAAAAAAAAAAAAAAAAAAAAAAAAAAAAAAY5HFKQ",
    "A1": "AEAQCAIBAEAQCAIBAEAQCAIBAEAQCAIBAEAQCAIBAEAQCAIBAEA5RCDXMI",
    "A2": "AIBAEAQCAIBAEAQCAIBAEAQCAIBAEAQCAIBAEAQCAIBAEAQCAIBMXPWWNQ",
    "A3": "AMBQGAYDAMBQGAYDAMBQGAYDAMBQGAYDAMBQGAYDAMBQGAYDAMB5DBBASI",
}
ADDR_NAMES = {v: k for k, v in ADDRS.items()}


def _int(n, fmt):
    if fmt == "hex":
        return hex(n)
    if fmt == "oct":
        return "0" + oct(n)[2:] if n else "0"
    return str(n)


def render_ins(ins):
    op, s, n, ns, ls, fmt = ins["op"], ins["s"], ins["n"], ins["ns"], ins["ls"], ins.get("fmt", "")
    if op == "pragma":
        return f"#pragma version {n}"
    if op == "label":
        return f"{s}:"
    if op in ("int", "pushint"):
        return f"{op} {s}" if s else f"{op} {_int(n, fmt)}"
    if op == "intcblock":
        return "intcblock " + " ".join(_int(x, fmt) for x in ns)
    if op in ("intc", "load", "store", "dig", "cover", "uncover", "bury", "popn", "dupn",
              "frame_dig", "frame_bury", "arg", "bytec", "gloads", "gaid", "replace2"):
        return f"{op} {n}"
    if op == "addr":
        return f"addr {ADDRS[s]}"
    if op in ("byte", "pushbytes"):
        return f'{op} "{s}"'
    if op in ("txn", "gtxns", "global", "itxn", "itxn_field", "txnas", "gtxnsas"):
        return f"{op} {s}"
    if op == "gtxn":
        return f"gtxn {n} {s}"
    if op in ("b", "bz", "bnz", "callsub"):
        return f"{op} {s}"
    if op in ("switch", "match"):
        return f"{op} " + " ".join(ls)
    if op == "raw":            # a verbatim source line (line family)
        return s
    return op


def render(prog):
    return "\n".join(render_ins(i) for i in prog) + "\n"


def render_variant(prog, variant):
    """Layout variants that must not change meaning; returns (text, linemap)
    where linemap[i] (1-based instruction position) = 1-based line in text."""
    lines, linemap = [], {}
    for i, ins in enumerate(prog, 1):
        txt = render_ins(ins)
        if variant == "comments":
            if i > 1:
                lines.append(f"// note {i}")
            txt = txt + f"   // c{i}"
        elif variant == "blank":
            if i > 1:
                lines.append("")
        elif variant == "indent":
            if i > 1:
                txt = "\t  " + txt + "  "
        lines.append(txt)
        linemap[i] = len(lines)
    return "\n".join(lines) + "\n", linemap
