"""Common plumbing of the checks: tiers and seeds, the observation cache,
witness classification against /verif/known_findings.json, VIOLATION /
KNOWN-FINDING lines, replay files and evidence files.

Exit codes: 0 property held on everything explored (possibly with
KNOWN-FINDING lines), 1 at least one VIOLATION, 2 machinery failure.
"""
import hashlib
import json
import os
import sys
import time
import traceback

VERIF = os.path.dirname(os.path.dirname(os.path.abspath(__file__)))
OUT = os.path.join(VERIF, "out")
REPO = os.environ.get("TEALER_REPO", "/repo")
KNOWN = os.path.join(VERIF, "known_findings.json")


class Machinery(Exception):
    """Something in the verification machinery itself failed (exit 2)."""


def tier_and_seed(argv):
    tier = os.environ.get("VERIF_TIER", "quick")
    seed = int(os.environ.get("VERIF_SEED", "1"))
    replay = None
    i = 0
    while i < len(argv):
        if argv[i] == "--tier":
            tier = argv[i + 1]
            i += 2
        elif argv[i] == "--seed":
            seed = int(argv[i + 1])
            i += 2
        elif argv[i] == "--replay":
            replay = argv[i + 1]
            i += 2
        else:
            i += 1
    if tier not in ("quick", "thorough"):
        raise Machinery("unknown tier %r" % tier)
    return tier, seed, replay


def tree_hash(extra=()):
    """Hash of the tool's sources (and of the given spec / harness files): key of the
    observation cache, so an edited tree never reuses stale observations."""
    h = hashlib.sha256()
    root = os.path.join(REPO, "tealer")
    for d, dirs, files in sorted(os.walk(root)):
        dirs.sort()
        for f in sorted(files):
            if f.endswith(".py"):
                p = os.path.join(d, f)
                h.update(p.encode())
                with open(p, "rb") as fh:
                    h.update(fh.read())
    for p in extra:
        with open(p, "rb") as fh:
            h.update(fh.read())
    return h.hexdigest()[:20]


def cached(key_parts, build):
    """Content-addressed cache under out/cache (disabled by VERIF_NOCACHE=1)."""
    if os.environ.get("VERIF_NOCACHE") == "1":
        return build()
    key = hashlib.sha256(json.dumps(key_parts, sort_keys=True).encode()).hexdigest()[:24]
    path = os.path.join(OUT, "cache", key + ".json")
    if os.path.exists(path):
        try:
            with open(path) as fh:
                return json.load(fh)
        except Exception:  # noqa: BLE001
            pass
    val = build()
    os.makedirs(os.path.dirname(path), exist_ok=True)
    tmp = path + ".%d.tmp" % os.getpid()
    with open(tmp, "w") as fh:
        json.dump(val, fh)
    os.replace(tmp, path)
    return val


# --------------------------------------------------------------------------
# known findings

def load_known():
    if not os.path.exists(KNOWN):
        return []
    with open(KNOWN) as fh:
        return json.load(fh)


def _matches(entry, w):
    m = entry.get("match", {})
    if entry.get("property") != w.get("property"):
        return False
    for k, v in m.items():
        if k == "clause":
            if w.get("clause") != v:
                return False
        elif k == "clause_in":
            if w.get("clause") not in v:
                return False
        elif k == "features_all":
            if not set(v) <= set(w.get("features", [])):
                return False
        elif k == "features_any":
            if not set(v) & set(w.get("features", [])):
                return False
        elif k == "features_none":
            if set(v) & set(w.get("features", [])):
                return False
        elif k == "det_in":
            if w.get("det") not in v:
                return False
        else:
            if w.get(k) != v:
                return False
    return True


def classify(witnesses):
    """Splits witnesses into (known: {entry id -> [w]}, unknown: [w])."""
    known_entries = [e for e in load_known() if e.get("status") == "known"]
    known, unknown = {}, []
    for w in witnesses:
        for e in known_entries:
            if _matches(e, w):
                known.setdefault(e["id"], []).append(w)
                break
        else:
            unknown.append(w)
    return known, unknown


# --------------------------------------------------------------------------
# reporting

def write_replay(prop, n, payload):
    d = os.environ.get("VERIF_REPLAY_DIR") or os.path.join(OUT, "replay")
    os.makedirs(d, exist_ok=True)
    path = os.path.join(d, "%s-%d.json" % (prop, n))
    with open(path, "w") as fh:
        json.dump(payload, fh, indent=1, sort_keys=True)
    return path


def finish(prop, tier, seed, level, coverage, assumptions, witnesses, t0, replay_of, notes=None):
    """Classifies witnesses, prints the verdict lines, writes evidence, returns exit code.

    witnesses: list of dicts with at least property, clause, features; replay_of(w) -> payload."""
    known, unknown = classify(witnesses)
    entries = {e["id"]: e for e in load_known()}
    for kid, ws in sorted(known.items()):
        rp = write_replay(prop, 9000 + sorted(entries).index(kid), replay_of(ws[0]))
        print("KNOWN-FINDING: property=%s %s [%s] (%d witnesses, e.g. %s)" % (
            prop, entries[kid]["what"], kid, len(ws), rp))
    # one VIOLATION line per (clause, detail): the replay file holds the smallest witness and a
    # summary of the descriptor features over all witnesses of the class
    groups = {}
    for w in unknown:
        key = (w.get("clause"), w.get("det", ""))
        groups.setdefault(key, []).append(w)
    n = 0
    for key, ws in sorted(groups.items(), key=lambda kv: str(kv[0])):
        n += 1
        ws.sort(key=lambda w: w.get("size", 0))
        payload = replay_of(ws[0])
        feat = {}
        for w in ws:
            for f in w.get("features", []):
                feat[f] = feat.get(f, 0) + 1
        payload["witnesses_in_class"] = len(ws)
        payload["feature_counts"] = dict(sorted(feat.items(), key=lambda kv: -kv[1])[:40])
        rp = write_replay(prop, n, payload)
        print("VIOLATION property=%s replay=%s clause=%s detail=%s witnesses=%d" % (
            prop, rp, key[0], key[1], len(ws)))
    cov = dict(coverage)
    cov["known_finding_classes"] = sorted(known)
    cov["violation_classes"] = n
    ev = {
        "property_id": prop, "tier": tier, "seed": seed, "level": level,
        "coverage": cov, "assumptions": assumptions,
        "wall_s": round(time.time() - t0, 2), "violations": n,
    }
    if notes:
        ev["notes"] = notes
    evdir = os.environ.get("VERIF_EVIDENCE_DIR") or os.path.join(VERIF, "evidence")   # (scratch runs against a mutated copy)
    os.makedirs(evdir, exist_ok=True)
    with open(os.path.join(evdir, prop + ".json"), "w") as fh:
        json.dump(ev, fh, indent=1, sort_keys=True)
    print("%s %s tier=%s seed=%d: %d violation class(es), %d known-finding class(es), %.1fs" % (
        prop, "VIOLATED" if n else "held", tier, seed, n, len(known), time.time() - t0))
    return 1 if n else 0


def main_wrapper(fn):
    try:
        rc = fn()
    except Machinery as e:
        print("MACHINERY-FAILURE: %s" % e)
        rc = 2
    except Exception:  # noqa: BLE001
        traceback.print_exc()
        print("MACHINERY-FAILURE: unexpected exception")
        rc = 2
    sys.exit(rc)
