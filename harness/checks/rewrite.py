"""C15: original vs rewritten text (Rewrite.tla) analysed by the real tool, compared under the induced
block map by RewriteCheck.tla; the comment / blank-line / indentation variants come from the pretty-printer."""
from harness import framework as fw
from harness.corpus import observed, _files_hash, SPEC_FILES, HARNESS_FILES
from harness.tlcrun import marker_lines
from harness.checks.prog import run_chunked, features
from harness.render import render, render_variant

CFG_Q = "INIT Init\nNEXT Next\nINVARIANT QEmit\nCHECK_DEADLOCK FALSE\n"
CFG = "INIT Init\nNEXT Next\nINVARIANT Report\nCHECK_DEADLOCK FALSE\n"
SIZES = {"quick": {"f1": 100, "f2": 40, "f3": 12}, "thorough": {"f1": 1500, "f2": 600, "f3": 200}}
FAMILIES = ("f1", "f2", "f3")


def _slim(o):
    if not o["ok"]:
        return {"ok": False, "ctx": {}, "det": {}}
    return {"ok": True, "ctx": o["ctx"], "det": {k: {"paths": v["paths"]} for k, v in o["det"].items()}}


def run_rewrite(tier, seed):
    from harness.observe import observe_program
    witnesses, cases_by, tot = [], {}, {"states": 0, "transitions": 0, "pairs": 0, "by_rewrite": {}}
    for fam in FAMILIES:
        cases, gen = observed(fam, SIZES[tier][fam], seed, ("cfg", "func", "ctx", "det"), sentinels=False)
        ok = [c for c in cases if c["obs"]["ok"]]
        outs = run_chunked("RewriteCheck", CFG_Q, [{"pid": c["pid"], "prog": c["prog"]} for c in ok], "rwq-%s" % fam,
                           fields=("pid", "prog"), nchunks=2)
        pairs = []
        for o in outs:
            pairs += marker_lines(o["stdout"], "Q")
        by = {c["pid"]: c for c in ok}
        judged = []
        for q in pairs:
            c = by[q["pid"]]
            text2 = render(q["prog2"])
            judged.append({"pid": len(judged) + 1, "orig": c["pid"], "r": q["r"], "prog": c["prog"], "prog2": q["prog2"],
                           "map": q["map"], "obs": _slim(c["obs"]), "obs2": _slim(observe_program(text2)), "text2": text2})
        # layout variants of the pretty-printer: same instruction list, other lines
        for c in ok[::3]:
            for variant in ("comments", "blank", "indent"):
                text2, linemap = render_variant(c["prog"], variant)
                o2 = observe_program(text2)
                # the tool numbers lines of the text; bring its observation back to instruction positions
                judged.append({"pid": len(judged) + 1, "orig": c["pid"], "r": "layout:" + variant, "prog": c["prog"],
                               "prog2": c["prog"], "map": list(range(1, len(c["prog"]) + 1)), "obs": _slim(c["obs"]),
                               "obs2": _slim(o2), "text2": text2})
        outs = run_chunked("RewriteCheck", CFG, judged, "rw-%s" % fam,
                           fields=("pid", "r", "prog", "prog2", "map", "obs", "obs2"))
        tot["states"] += sum(o["distinct"] for o in outs)
        tot["transitions"] += sum(o["states"] for o in outs)
        n = 0
        for o in outs:
            for w in marker_lines(o["stdout"], "W"):
                w["fam"] = fam
                witnesses.append(w)
            n += len(marker_lines(o["stdout"], "S"))
        if n != len(judged):
            raise fw.Machinery("RewriteCheck judged %d of %d pairs" % (n, len(judged)))
        tot["pairs"] += len(judged)
        for j in judged:
            tot["by_rewrite"][j["r"]] = tot["by_rewrite"].get(j["r"], 0) + 1
            cases_by["%s/%d" % (fam, j["pid"])] = {"r": j["r"], "text": by[j["orig"]]["teal"], "text2": j["text2"],
                                                    "desc": by[j["orig"]]["desc"], "fam": by[j["orig"]]["fam"]}
    return witnesses, cases_by, tot


def rewrite_cached(tier, seed):
    key = ["rewrite", tier, seed, fw.tree_hash(),
           _files_hash(SPEC_FILES(["Teal", "Cfg", "Avm", "Reps", "Rewrite", "RewriteCheck", "Gen", "Prng"])),
           _files_hash(HARNESS_FILES(["checks/rewrite.py"])), SIZES[tier]]

    def build():
        w, cases, tot = run_rewrite(tier, seed)
        return {"witnesses": w, "cases": cases, "tot": tot}
    r = fw.cached(key, build)
    return r["witnesses"], r["cases"], r["tot"]


def collect(prop, tier, seed):
    witnesses, cases, tot = rewrite_cached(tier, seed)
    mine = []
    for w in witnesses:
        c = cases["%s/%d" % (w["fam"], w["pid"])]
        if w["clause"].startswith("spec."):
            raise fw.Machinery("a rewrite of Rewrite.tla is not meaning-preserving on the Avm machine (%s):\n%s\n--\n%s" % (
                c["r"], c["text"], c["text2"]))
        w = dict(w)
        w["property"] = prop
        w["features"] = features({"desc": c["desc"], "fam": c["fam"]}, w) + ["rewrite:" + c["r"]]
        w["size"] = len(c["text"])
        w["pipe"] = "rewrite"
        mine.append(w)
    if len(tot["by_rewrite"]) < 8:
        raise fw.Machinery("vacuous: only %d kinds of rewrite were applicable" % len(tot["by_rewrite"]))
    cov = {"states": tot["states"], "transitions": tot["transitions"], "traces_validated_against_impl": tot["pairs"],
           "evaluations": tot["pairs"], "distinct_nontrivial": tot["pairs"], "pairs_per_rewrite": tot["by_rewrite"],
           "rule": "RewriteCheck.tla: three rewrites of Rewrite.tla per program of f1/f2/f3 (rename, hex, oct, numeric, pushint, "
                   "intc, pad, movesubs and compositions) plus the comment / blank-line / indentation variants of every third "
                   "program; every pair counts (no-op rewrites are not emitted)",
           "samples": [cases[k] for k in sorted(cases)[:1]]}

    def replay_of(w):
        c = cases["%s/%d" % (w["fam"], w["pid"])]
        return {"property": prop, "clause": w["clause"], "rewrite": c["r"], "detail": w["det"], "block": w["b"],
                "observed_rewritten": w["obs"], "expected_from_original": w["exp"], "teal": c["text"],
                "teal_rewritten": c["text2"], "how": "bin/check %s --replay <this file>" % prop}
    return {"witnesses": mine, "cov": cov, "replay_of": replay_of,
            "assumptions": ["each rewritten pair is first shown equivalent on Avm.tla over Reps!Envs (exit 2 otherwise)",
                            "blocks are matched through the line map of the rewrite"]}
