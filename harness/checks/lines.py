"""C16, C11(a), C19 (per instruction): LineGen cases parsed by the real parser, judged by LineCheck.tla."""
from harness import framework as fw
from harness.corpus import _files_hash, SPEC_FILES, HARNESS_FILES
from harness.tlcrun import run_tlc, marker_lines, require_ok
from harness.checks.prog import run_chunked

CFG = "INIT Init\nNEXT Next\nINVARIANT Report\nCHECK_DEADLOCK FALSE\n"
CLAUSE_PROP = {"c16": "C16", "c11": "C11", "c19": "C19"}


def gen_lines():
    key = ["linecases", _files_hash(SPEC_FILES(["AvmTable", "LineGen", "LineEmit"]))]

    def build():
        res = run_tlc("LineEmit", "INIT Init\nNEXT Next\nINVARIANT Emit\nCHECK_DEADLOCK FALSE\n", workers=4)
        require_ok(res, "LineEmit")
        cases = marker_lines(res["stdout"], "P")
        cases.sort(key=lambda c: (c["kind"], str(c.get("case", c.get("text")))))
        for i, c in enumerate(cases, 1):
            c["pid"] = i
        return {"cases": cases, "states": res["distinct"]}
    return fw.cached(key, build)


def run_lines():
    from harness.lineobs import observe_line
    gen = gen_lines()
    judged = []
    for c in gen["cases"]:
        if c["kind"] == "op":
            text = " ".join([c["case"]["op"]] + c["case"]["toks"])
            rec = {"pid": c["pid"], "kind": "op", "text": text, "case": c["case"], "obs": observe_line("op", text)}
            o = rec["obs"]
            for k, v in (("exc", ""), ("cls", ""), ("str", ""), ("mnemonic", ""), ("line", -1), ("pop", -1), ("push", -1),
                         ("ver", -1), ("mode", ""), ("cost8", -1), ("cost1", -1), ("fver", -1), ("re_ok", False),
                         ("re_cls", ""), ("re_str", ""), ("variants", [])):
                o.setdefault(k, v)
        else:
            rec = {"pid": c["pid"], "kind": "miss", "text": c["text"],
                   "case": {"op": "", "toks": [], "canon": [], "n": 0, "k": 0, "s": ""},
                   "obs": observe_line("miss", c["text"])}
        judged.append(rec)
    outs = run_chunked("LineCheck", CFG, judged, "lines", fields=("pid", "kind", "text", "case", "obs"), nchunks=3)
    witnesses = []
    n = 0
    for o in outs:
        witnesses += marker_lines(o["stdout"], "W")
        n += len(marker_lines(o["stdout"], "S"))
    if n != len(judged):
        raise fw.Machinery("LineCheck judged %d of %d lines" % (n, len(judged)))
    tot = {"states": sum(o["distinct"] for o in outs) + gen["states"], "transitions": sum(o["states"] for o in outs),
           "lines": len(judged), "ops": len(set(j["case"]["op"] for j in judged if j["kind"] == "op")),
           "near_misses": len([j for j in judged if j["kind"] == "miss"])}
    return witnesses, {j["pid"]: j for j in judged}, tot


def lines_cached():
    key = ["lines", fw.tree_hash(), _files_hash(SPEC_FILES(["AvmTable", "LineGen", "LineEmit", "LineCheck"])),
           _files_hash(HARNESS_FILES(["lineobs.py", "checks/lines.py"]))]

    def build():
        w, cases, tot = run_lines()
        return {"witnesses": w, "cases": {str(k): v for k, v in cases.items()}, "tot": tot}
    r = fw.cached(key, build)
    return r["witnesses"], {int(k): v for k, v in r["cases"].items()}, r["tot"]


def collect(prop, tier, seed):
    witnesses, cases, tot = lines_cached()
    mine = []
    for w in witnesses:
        if CLAUSE_PROP.get(w["clause"][:3]) != prop:
            continue
        c = cases[w["pid"]]
        w = dict(w)
        w["property"] = prop
        w["det"] = c["case"]["op"] if c["kind"] == "op" else "near-miss"
        w["b"] = -1
        w["features"] = ["op:" + w["det"], "kind:" + c["kind"]]
        w["size"] = len(c["text"])
        w["pipe"] = "lines"
        mine.append(w)
    cov = {"evaluations": tot["lines"], "distinct_nontrivial": tot["ops"], "states": tot["states"],
           "transitions": tot["transitions"], "traces_validated_against_impl": tot["lines"],
           "near_miss_mnemonics": tot["near_misses"], "exhaustive": True,
           "rule": "LineCheck.tla: every opcode of AvmTable.tla with representatives of each immediate class "
                   "(LineGen.tla), each rendered plain / indented / with trailing comment / after comment and blank "
                   "lines, parsed by the real parser inside a one-line program at version 8 and version 1; plus one "
                   "near-miss mnemonic per opcode; non-trivial = distinct opcodes",
           "samples": [cases[k]["text"] for k in sorted(cases)[:5]]}

    def replay_of(w):
        c = cases[w["pid"]]
        return {"property": prop, "clause": w["clause"], "line": c["text"], "observed": w["obs"], "expected": w["exp"],
                "tool": c["obs"], "how": "bin/check %s --replay <this file>" % prop}
    return {"witnesses": mine, "cov": cov, "replay_of": replay_of,
            "assumptions": ["AvmTable.tla is the reading of the AVM specification (rows marked unsure are not enforced)",
                            "immediates are class representatives (LineGen.tla), not the whole grammar"]}
