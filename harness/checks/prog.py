"""C01, C04 (dynamic part), C06-C10 soundness: ProgCheck.tla over the check families.

TLC explores every execution of Avm.tla on every generated program over Reps!Envs with the
real tool's observation bound in; this module only routes witnesses to properties, derives
descriptor features for the known-findings matcher and writes evidence."""
import json
import os
import time

from harness import framework as fw
from harness.corpus import observed, write_obs_file
from harness.tlcrun import run_tlc, marker_lines, require_ok

CFG = "INIT Init\nNEXT Next\nINVARIANT Report\nCHECK_DEADLOCK FALSE\n"
SIZES = {"quick": {"f1": 500, "f2": 250, "f3": 120, "layout": 150},
         "thorough": {"f1": 6000, "f2": 3000, "f3": 1200, "layout": 2000}}
FAMILIES = ("f1", "f2", "f3", "layout")

CLAUSE_PROP = {"c01": "C01", "c04": "C04", "c06": "C06", "c07": "C07", "c08": "C08", "c09": "C09", "c10": "C10"}


def features(case, w):
    d, fam = case["desc"], case["fam"]
    fs = ["fam:" + fam.rstrip("s")]
    if fam.startswith("f1"):
        fs += ["field:" + d["ref"]["f"], "ref:" + d["ref"]["kind"], "op:" + d["op"], "side:" + d["side"],
               "neg:%d" % d["neg"], "cons:" + d["cons"], "skel:%d" % d["skel"], "const:%d" % d["c"],
               "cmp:%s:%s" % (d["ref"]["f"], d["op"]), "cmp%s:%s:%s" % (d["side"], d["ref"]["f"], d["op"])]
    elif fam.startswith("f2"):
        from_pairs = [("RekeyTo", "Fee"), ("TypeEnum", "CloseRemainderTo"), ("TypeEnum", "AssetCloseTo"),
                      ("OnCompletion", "Sender"), ("ApplicationID", "OnCompletion"), ("Fee", "Fee"),
                      ("GroupSize", "GroupIndex"), ("GroupSize", "GroupSize"), ("OnCompletion", "OnCompletion"),
                      ("RekeyTo", "RekeyTo"), ("TypeEnum", "OnCompletion"), ("GroupIndex", "GroupIndex")]
        a, b = from_pairs[d["pair"] - 1]
        fs += ["field:" + a, "field:" + b, "pair:%s+%s" % (a, b), "join:" + d["join"], "neg:%d" % d["neg"], "cons:" + d["cons"],
               "skel:%d" % d["skel"], "opA:" + d["a"]["op"], "opB:" + d["b"]["op"],
               "sideA:" + d["a"]["side"], "sideB:" + d["b"]["side"],
               "cmp:%s:%s" % (a, d["a"]["op"]), "cmp:%s:%s" % (b, d["b"]["op"]),
               "cmp%s:%s:%s" % (d["a"]["side"], a, d["a"]["op"]), "cmp%s:%s:%s" % (d["b"]["side"], b, d["b"]["op"])]
    elif fam.startswith("f3"):
        fs += ["field:" + d["ref"]["f"], "ref:" + d["ref"]["kind"], "op:" + d["op"], "side:" + d["side"],
               "guard:" + d["guard"], "cons:" + d["cons"], "skel:%d" % d["skel"], "idx:%d" % d["ref"]["i"],
               "cmp:%s:%s" % (d["ref"]["f"], d["op"]), "cmp%s:%s:%s" % (d["side"], d["ref"]["f"], d["op"])]
        if d["guard"] != "none":
            fs.append("field:GroupSize" if d["guard"].startswith("size") else "field:GroupIndex")
    elif fam.startswith("layout"):
        fs += ["place:%d" % d["place"]] + sorted(set("kind:" + k for k in d["main"] + d["s1"] + d["s2"]))
    if d.get("app"):
        fs.append("app")
    return sorted(set(fs))


def run_chunked(module, cfg, cases, tag, nchunks=None, workers=None, fields=None, extra=None):
    """Runs one TLC process per chunk of the corpus, concurrently: the per-program tables of a
    check module are evaluated single-threaded at TLC start-up, so processes scale where
    workers do not."""
    from concurrent.futures import ThreadPoolExecutor
    nchunks = nchunks or int(os.environ.get("VERIF_TLC_PROCS", "5"))
    workers = workers or int(os.environ.get("VERIF_TLC_WORKERS", "3"))
    nchunks = max(1, min(nchunks, len(cases) // 20 or 1))
    chunks = [cases[i::nchunks] for i in range(nchunks)]

    def one(i):
        flds = fields or (("pid", "prog", "obs") + (("feas",) if "feas" in chunks[i][0] else ()))
        path = write_obs_file(chunks[i], os.path.join(fw.OUT, "work", "%s-%d-%d.json" % (tag, os.getpid(), i)),
                              fields=flds, extra=extra)
        try:
            res = run_tlc(module, cfg, env={"OBS_FILE": path, "JAVA_TOOL_OPTIONS": "-Xmx4g"},
                          workers=workers, timeout=6 * 3600)
        finally:
            os.unlink(path)
        require_ok(res, "%s(%s chunk %d)" % (module, tag, i))
        return res
    with ThreadPoolExecutor(nchunks) as ex:
        return list(ex.map(one, range(nchunks)))


def run_progcheck(tier, seed, families=FAMILIES):
    witnesses, cases_by, tot = [], {}, {"states": 0, "transitions": 0, "programs": 0, "gen_states": 0,
                                        "acc": 0, "danger": {}}
    for fam in families:
        n = SIZES[tier][fam]
        cases, gen = observed(fam, n, seed, ("cfg", "func", "ctx", "det"))
        ok_cases = [c for c in cases if c["obs"]["ok"]]
        tot["gen_states"] += gen["distinct"]
        tot["programs"] += len(ok_cases)
        for c in cases:
            cases_by[(fam, c["pid"])] = c
        if not ok_cases:
            continue
        outs = run_chunked("ProgCheck", CFG, ok_cases, "prog-%s" % fam)
        stdout = "\n".join(o["stdout"] for o in outs)
        tot["states"] += sum(o["distinct"] for o in outs)
        tot["transitions"] += sum(o["states"] for o in outs)
        res = {"stdout": stdout}
        seen = set()
        for w in marker_lines(res["stdout"], "W"):
            key = (w["pid"], w["clause"], w["det"], w["b"])
            if key in seen:
                continue
            seen.add(key)
            w["fam"] = fam
            witnesses.append(w)
        acc = set(a["pid"] for a in marker_lines(res["stdout"], "A"))
        danger = set((a["pid"], a["det"]) for a in marker_lines(res["stdout"], "D"))
        tot["acc"] += len(acc)
        for _pid, det in danger:
            tot["danger"][det] = tot["danger"].get(det, 0) + 1
    return witnesses, cases_by, tot


def progcheck_cached(tier, seed):
    """The six properties served by ProgCheck share one exploration: its witnesses are cached by
    the content of the tool's sources, the specification and the harness."""
    from harness.corpus import _files_hash, SPEC_FILES, HARNESS_FILES
    key = ["progcheck", tier, seed, fw.tree_hash(), _files_hash(SPEC_FILES(['Teal', 'Cfg', 'Avm', 'Reps', 'ProgCheck'])), _files_hash(HARNESS_FILES()),
           SIZES[tier]]

    def build():
        witnesses, _cases, tot = run_progcheck(tier, seed)
        return {"witnesses": witnesses, "tot": tot}
    r = fw.cached(key, build)
    cases = {}
    for fam in FAMILIES:
        cs, _ = observed(fam, SIZES[tier][fam], seed, ("cfg", "func", "ctx", "det"))
        for c in cs:
            cases[(fam, c["pid"])] = c
    return r["witnesses"], cases, r["tot"]


def collect(prop, tier, seed):
    witnesses, cases, tot = progcheck_cached(tier, seed)
    mine, machinery = [], []
    for w in witnesses:
        if w["clause"].startswith("machinery."):
            machinery.append(w)
            continue
        if CLAUSE_PROP.get(w["clause"][:3]) != prop:
            continue
        c = cases[(w["fam"], w["pid"])]
        w = dict(w)
        w["property"] = prop
        w["features"] = features(c, w)
        w["size"] = len(c["teal"])
        w["pipe"] = "prog"
        mine.append(w)
    if machinery:
        c = cases[(machinery[0]["fam"], machinery[0]["pid"])]
        raise fw.Machinery("program outside the modelled fragment (%s):\n%s" % (machinery[0]["clause"], c["teal"]))
    if prop == "C01":
        lacking = [d for d in DETECTORS if tot["danger"].get(d, 0) == 0]
        if lacking:
            raise fw.Machinery("vacuous: no accepting run carried the dangerous value of %s" % lacking)
    if tot["acc"] == 0:
        raise fw.Machinery("vacuous: no program had an accepting run")
    cov = {
        "states": tot["states"] + tot["gen_states"], "transitions": tot["transitions"],
        "traces_validated_against_impl": tot["programs"],
        "programs": tot["programs"], "programs_with_accepting_run": tot["acc"],
        "distinct_nontrivial": tot["acc"],
        "programs_with_dangerous_accepting_run_per_detector": tot["danger"],
        "rule": "ProgCheck.tla: programs of families f1 (one check), f2 (two checks), f3 (group reads), layout, "
                "generated by Gen.tla; all executions of Avm.tla over Reps!Envs (one representative per region cut "
                "by the program's constants); non-trivial = the program has at least one accepting execution",
        "samples": [cases[k]["teal"] for k in sorted(cases)[:2]],
    }

    def replay_of(w):
        c = cases[(w["fam"], w["pid"])]
        return {"property": prop, "clause": w["clause"], "detail": w["det"], "block": w["b"],
                "observed": w["obs"], "env": w["env"], "teal": c["teal"], "desc": c["desc"],
                "family": c["fam"], "features": w["features"],
                "tool_context_of_block": c["obs"].get("ctx", {}).get(str(w["b"]), {}),
                "tool_paths": {k: v["paths"] for k, v in c["obs"].get("det", {}).items()},
                "how": "bin/check %s --replay <this file>" % prop}
    return {"witnesses": mine, "cov": cov, "replay_of": replay_of,
            "assumptions": ["Avm.tla is the reference semantics (DESIGN.md Appendix A)",
                            "inputs are representatives per region (Reps.tla); fields a program never reads are "
                            "quantified inside the clauses",
                            "programs are those of the generator grammar (Gen.tla)"]}


DETECTORS = ["rekey-to", "can-close-account", "can-close-asset", "missing-fee-check", "is-updatable",
             "is-deletable", "unprotected-updatable", "unprotected-deletable", "group-size-check"]
