"""C12: functions cut out by dispatch paths (CutGen.tla) built by the real construct_function(), judged by
CutCheck.tla (graph surgery, sharing, independence, soundness w.r.t. the executions that follow the path)."""
import contextlib
import io
import json
import os

from harness import framework as fw
from harness.corpus import cases_for, _files_hash, SPEC_FILES, HARNESS_FILES
from harness.tlcrun import marker_lines
from harness.checks.prog import run_chunked, features
from harness.render import render

CFG_Q = "INIT Init\nNEXT Next\nINVARIANT QEmit\nCHECK_DEADLOCK FALSE\n"
CFG = "INIT Init\nNEXT Next\nINVARIANT Report\nCHECK_DEADLOCK FALSE\n"
SIZES = {"quick": {"f1": 70, "f2": 30, "layout": 40}, "thorough": {"f1": 1200, "f2": 500, "layout": 800}}
FAMILIES = ("f1", "f2", "layout")
MAXPATHS = 6


def _snap(teal):
    return [{"id": int(b.idx), "next": [int(x.idx) for x in b.next], "prev": [int(x.idx) for x in b.prev],
             "lines": [int(i.line) for i in b.instructions]} for b in teal.bbs]


def observe_cuts(text, paths):
    """All paths of one program: every function is built in one Teal object (in the given order) and, separately,
    alone on a fresh parse."""
    from harness.observe import _load, _block, _ctx
    _load()
    from tealer.teal.parse_teal import parse_teal
    from tealer.teal.parse_functions import construct_function
    res = []
    buf = io.StringIO()
    with contextlib.redirect_stdout(buf), contextlib.redirect_stderr(buf):
        try:
            shared = parse_teal(text, "c")
            text_of = {str(b.idx): [str(i) for i in b.instructions] for b in shared.bbs}
        except BaseException as e:  # noqa: BLE001
            return [{"ok": False, "exc": "%s: %s" % (type(e).__name__, e)} for _ in paths]
        for path in paths:
            obs = {"ok": False, "exc": "", "fblocks": [], "fentry": -1, "ctx": {}, "bbs_before": [], "bbs_after": [],
                   "same_alone": True, "diff_alone": "", "text_of": text_of}
            try:
                dp = ["B%d" % b for b in path]
                obs["bbs_before"] = _snap(shared)
                f = construct_function(shared, dp, "f")
                obs["bbs_after"] = _snap(shared)
                fb = sorted(f.blocks, key=lambda b: b.idx)
                obs["fblocks"] = [_block(b) for b in fb]
                obs["fentry"] = int(f.entry.idx)
                ctx = {str(b.idx): _ctx(f.transaction_context(b)) for b in f.blocks}
                obs["ctx"] = {k: v for k, v in ctx.items() if int(k) < 65536}
                alone = parse_teal(text, "c")
                f2 = construct_function(alone, dp, "f")
                ctx2 = {str(b.idx): _ctx(f2.transaction_context(b)) for b in f2.blocks}
                if json.dumps(ctx, sort_keys=True) != json.dumps(ctx2, sort_keys=True):
                    obs["same_alone"] = False
                    obs["diff_alone"] = "contexts differ from those of the same function built alone"
                obs["ok"] = True
            except BaseException as e:  # noqa: BLE001
                obs["exc"] = "%s: %s" % (type(e).__name__, str(e)[:150])
            res.append(obs)
    _via_config(text, paths, res)
    return res


def _shape(f):
    """blocks of a function with the ids of the cut-off error blocks (numbered by creation) replaced by -1"""
    def n(x):
        return int(x.idx) if int(x.idx) < 65536 else -1
    return [[int(b.idx), [n(x) for x in b.next], sorted(n(x) for x in b.prev)] for b in sorted(f.blocks, key=lambda b: b.idx)
            if int(b.idx) < 65536]


def _via_config(text, paths, res):
    """The same functions built the way `tealer detect --group-config` builds them: ONE configuration naming every path as
    a function of one contract (init_tealer_from_config).  Recorded next to the directly built function: shape and contexts."""
    from harness.observe import _ctx
    from tealer.teal.parse_teal import parse_teal
    from tealer.teal.parse_functions import construct_function
    from tealer.utils.command_line.group_config import (GroupConfig, GroupConfigContract, GroupConfigFunction,
                                                        GroupConfigGroup, GroupConfigTransaction, GroupConfigFunctionCall)
    from tealer.utils.command_line.common import init_tealer_from_config
    from tealer.utils.teal_enums import ContractType
    import shutil
    import tempfile
    work = tempfile.mkdtemp(prefix="cutcfg-", dir=os.path.join(fw.OUT, "work"))
    buf = io.StringIO()
    try:
        with contextlib.redirect_stdout(buf), contextlib.redirect_stderr(buf):
            path = os.path.join(work, "c.teal")
            with open(path, "w") as fh:
                fh.write(text)
            probe = parse_teal(text, "c")
            is_app = probe.contract_type != ContractType.LogicSig
            funcs = [GroupConfigFunction("f%d" % i, ["B%d" % b for b in p]) for i, p in enumerate(paths)]
            contract = GroupConfigContract("P", path, "ApprovalProgram" if is_app else "LogicSig", int(probe.version), [], funcs)
            call = GroupConfigFunctionCall("P", "f0")
            if is_app:
                tx = GroupConfigTransaction("T1", "appl", application=call, has_logic_sig=None, logic_sig=None,
                                            absolute_index=None, relative_indexes=None)
            else:
                tx = GroupConfigTransaction("T1", "txn", application=None, has_logic_sig=True, logic_sig=call,
                                            absolute_index=None, relative_indexes=None)
            tealer = init_tealer_from_config(GroupConfig("g", [contract], [GroupConfigGroup("op", [tx])]))
            teal = tealer.contracts["P"]
            for i, (p, obs) in enumerate(zip(paths, res)):
                if not obs.get("ok"):
                    continue
                f = teal.functions["f%d" % i]
                alone = construct_function(parse_teal(text, "c"), ["B%d" % b for b in p], "f")
                obs["via"] = {"ok": True, "exc": "", "name": f.function_name, "shape": _shape(f),
                              "ctx": {str(b.idx): _ctx(f.transaction_context(b)) for b in f.blocks if int(b.idx) < 65536}}
                obs["direct"] = {"name": "f%d" % i, "shape": _shape(alone),
                                 "ctx": {str(b.idx): _ctx(alone.transaction_context(b)) for b in alone.blocks if int(b.idx) < 65536}}
    except BaseException as e:  # noqa: BLE001
        for obs in res:
            if obs.get("ok") and "via" not in obs:
                obs["via"] = {"ok": False, "exc": "%s: %s" % (type(e).__name__, str(e)[:150]), "name": "", "shape": [], "ctx": {}}
                obs["direct"] = {"name": "", "shape": [], "ctx": {}}
    finally:
        shutil.rmtree(work, ignore_errors=True)


def run_cut(tier, seed):
    witnesses, cases_by, tot = [], {}, {"states": 0, "transitions": 0, "functions": 0, "long_paths": 0, "with_acc": 0,
                                        "failed": 0}
    for fam in FAMILIES:
        gen = cases_for(fam, SIZES[tier][fam], seed, sentinels=False)
        progs = [{"pid": c["pid"], "prog": c["prog"]} for c in gen["cases"]]
        outs = run_chunked("CutGen", CFG_Q, progs, "cutq-%s" % fam, fields=("pid", "prog"), nchunks=2)
        paths = {}
        for o in outs:
            for q in marker_lines(o["stdout"], "Q"):
                paths.setdefault(q["pid"], [])
                if q["path"] not in paths[q["pid"]]:
                    paths[q["pid"]].append(q["path"])
        judged = []
        for c in gen["cases"]:
            ps = sorted(paths.get(c["pid"], [[0]]), key=lambda p: (-len(p), p))[:MAXPATHS]
            text = render(c["prog"])
            for path, obs in zip(ps, observe_cuts(text, ps)):
                if not obs["ok"]:
                    tot["failed"] += 1
                    witnesses.append({"pid": -1, "fam": fam, "clause": "c12.construct-function-failed", "det": "", "b": -1,
                                      "obs": obs["exc"], "exp": "a function", "text": text, "path": path})
                    continue
                judged.append({"pid": len(judged) + 1, "orig": c["pid"], "prog": c["prog"], "path": path, "obs": obs})
                cases_by["%s/%d" % (fam, len(judged))] = {"text": text, "path": path, "desc": c["desc"], "fam": c["fam"]}
                if len(path) > 1:
                    tot["long_paths"] += 1
        outs = run_chunked("CutCheck", CFG, judged, "cut-%s" % fam, fields=("pid", "prog", "path", "obs"))
        tot["states"] += sum(o["distinct"] for o in outs)
        tot["transitions"] += sum(o["states"] for o in outs)
        n = 0
        for o in outs:
            for w in marker_lines(o["stdout"], "W"):
                w["fam"] = fam
                witnesses.append(w)
            n += len(marker_lines(o["stdout"], "S"))
            tot["with_acc"] += len(set(a["pid"] for a in marker_lines(o["stdout"], "A")))
        if n != len(judged):
            raise fw.Machinery("CutCheck judged %d of %d functions" % (n, len(judged)))
        tot["functions"] += len(judged)
    return witnesses, cases_by, tot


def cut_cached(tier, seed):
    key = ["cut", tier, seed, fw.tree_hash(),
           _files_hash(SPEC_FILES(["Teal", "Cfg", "Avm", "Reps", "Admit", "CutGen", "CutCheck", "Gen", "Prng"])),
           _files_hash(HARNESS_FILES(["checks/cut.py"])), SIZES[tier]]

    def build():
        w, cases, tot = run_cut(tier, seed)
        return {"witnesses": w, "cases": cases, "tot": tot}
    r = fw.cached(key, build)
    return r["witnesses"], r["cases"], r["tot"]


def collect(prop, tier, seed):
    witnesses, cases, tot = cut_cached(tier, seed)
    mine = []
    for w in witnesses:
        if w["pid"] == -1:
            c = {"text": w["text"], "path": w["path"], "desc": {}, "fam": "x"}
            feats = ["fam:" + w["fam"]]
        else:
            c = cases["%s/%d" % (w["fam"], w["pid"])]
            feats = features({"desc": c["desc"], "fam": c["fam"]}, w) + ["pathlen:%d" % len(c["path"])]
        w = dict(w)
        w["property"] = prop
        w["features"] = feats
        w["size"] = len(c["text"])
        w["pipe"] = "cut"
        w["_case"] = c
        mine.append(w)
    if tot["long_paths"] == 0 or tot["with_acc"] == 0:
        raise fw.Machinery("vacuous: no dispatch path longer than one block / no accepting execution along a path")
    cov = {"states": tot["states"], "transitions": tot["transitions"], "traces_validated_against_impl": tot["functions"],
           "functions": tot["functions"], "distinct_nontrivial": tot["long_paths"],
           "functions_with_accepting_execution_along_path": tot["with_acc"],
           "rule": "CutCheck.tla: for programs of f1/f2/layout every dispatch path of CutGen.tla (simple paths of up to four "
                   "blocks from the entry, at most %d per program) is given to the real construct_function(), all functions of "
                   "a program in one Teal object; non-trivial = paths of more than one block" % MAXPATHS,
           "samples": [cases[k] for k in sorted(cases)[:2]]}

    def replay_of(w):
        c = w["_case"]
        return {"property": prop, "clause": w["clause"], "block": w["b"], "observed": w["obs"], "expected": w["exp"],
                "teal": c["text"], "dispatch_path": c["path"], "how": "bin/check %s --replay <this file>" % prop}
    return {"witnesses": mine, "cov": cov, "replay_of": replay_of,
            "assumptions": ["Cfg.tla graph + the path surgery of CutCheck!Cut is the reading of C12",
                            "context clauses: soundness only, for executions whose entered-block sequence starts with the path"]}
