"""C02 (and the search half of C01): every reported path validated as a trace of the walk machine
over Cfg!Graph by SearchCheck.tla."""
from harness import framework as fw
from harness.corpus import observed, _files_hash, SPEC_FILES, HARNESS_FILES
from harness.tlcrun import marker_lines
from harness.checks.prog import run_chunked, features, SIZES, FAMILIES

CFG = "INIT Init\nNEXT Next\nINVARIANT Report\nCHECK_DEADLOCK FALSE\n"
CLAUSE_PROP = {"c01": "C01", "c02": "C02"}


def run_search(tier, seed):
    witnesses, tot = [], {"states": 0, "transitions": 0, "programs": 0, "paths": 0, "deep_paths": 0,
                          "programs_with_paths": 0}
    for fam in FAMILIES:
        cases, gen = observed(fam, SIZES[tier][fam], seed, ("cfg", "func", "ctx", "det"))
        ok = [c for c in cases if c["obs"]["ok"]]
        tot["programs"] += len(ok)
        slim = [{"pid": c["pid"], "prog": c["prog"],
                 "obs": {"ok": True, "ctx": c["obs"]["ctx"], "det": c["obs"]["det"], "fblocks": c["obs"]["fblocks"]}}
                for c in ok]
        outs = run_chunked("SearchCheck", CFG, slim, "search-%s" % fam)
        tot["states"] += sum(o["distinct"] for o in outs)
        tot["transitions"] += sum(o["states"] for o in outs)
        seen = set()
        withp = set()
        for o in outs:
            for w in marker_lines(o["stdout"], "W"):
                key = (w["pid"], w["clause"], w["det"], w["path"])
                if key in seen:
                    continue
                seen.add(key)
                w["fam"] = fam
                witnesses.append(w)
            for t in marker_lines(o["stdout"], "T"):
                tot["paths"] += 1
                withp.add(t["pid"])
                if t["len"] >= 4:
                    tot["deep_paths"] += 1
        tot["programs_with_paths"] += len(withp)
        expected = sum(len(v["paths"]) for c in ok for v in c["obs"]["det"].values())
        tot.setdefault("reported_paths", 0)
        tot["reported_paths"] += expected
    return witnesses, tot


def search_cached(tier, seed):
    key = ["search", tier, seed, fw.tree_hash(), _files_hash(SPEC_FILES(['Teal', 'Cfg', 'PathReach', 'SearchCheck'])), _files_hash(HARNESS_FILES(['checks/search.py'])), SIZES[tier]]

    def build():
        w, tot = run_search(tier, seed)
        return {"witnesses": w, "tot": tot}
    r = fw.cached(key, build)
    cases = {}
    for fam in FAMILIES:
        cs, _ = observed(fam, SIZES[tier][fam], seed, ("cfg", "func", "ctx", "det"))
        for c in cs:
            cases[(fam, c["pid"])] = c
    return r["witnesses"], cases, r["tot"]


def collect(prop, tier, seed):
    witnesses, cases, tot = search_cached(tier, seed)
    mine = []
    for w in witnesses:
        if CLAUSE_PROP.get(w["clause"][:3]) != prop:
            continue
        c = cases[(w["fam"], w["pid"])]
        w = dict(w)
        w["property"] = prop
        w["features"] = features(c, w)
        w["size"] = len(c["teal"])
        w["pipe"] = "search"
        mine.append(w)
    if tot["paths"] == 0 or tot["deep_paths"] == 0:
        raise fw.Machinery("vacuous: no (deep) reported path was validated")
    cov = {
        "states": tot["states"], "transitions": tot["transitions"],
        "traces_validated_against_impl": tot["paths"], "programs": tot["programs"],
        "reported_paths": tot.get("reported_paths", 0), "paths_of_4_or_more_blocks": tot["deep_paths"],
        "distinct_nontrivial": tot["programs_with_paths"],
        "rule": "SearchCheck.tla: every path reported by each of the nine detectors on the generated programs "
                "(f1, f2, f3, layout incl. nested/shared/recursive calls) is consumed block by block by the walk "
                "machine over Cfg!Graph; non-trivial = program with at least one reported path",
        "samples": [[c["teal"], {k: v["paths"] for k, v in c["obs"]["det"].items() if v["paths"]}]
                    for c in [cases[k] for k in sorted(cases)[:40]] if c["obs"]["ok"]
                    and any(v["paths"] for v in c["obs"]["det"].values())][:2],
    }

    def replay_of(w):
        c = cases[(w["fam"], w["pid"])]
        return {"property": prop, "clause": w["clause"], "detector": w["det"], "path_index": w["path"],
                "block": w["b"], "observed": w["obs"], "teal": c["teal"], "desc": c["desc"],
                "features": w["features"], "tool_paths": c["obs"]["det"][w["det"]]["paths"],
                "how": "bin/check %s --replay <this file>" % prop}
    return {"witnesses": mine, "cov": cov, "replay_of": replay_of,
            "assumptions": ["Cfg.tla is the reference graph; the 'dangerous value excluded' predicates are those "
                            "stated in the properties (SearchCheck!Checks) applied to the tool's own recorded contexts",
                            "the verdict clauses skip programs with recursive subroutines (the search cuts recursion)"]}
