"""C13: group configurations (GroupGen.tla) given to the real init_tealer_from_config(); the reported
vulnerable transactions are judged by GroupCheck.tla against Group!Vulnerable on the tool's own leaf contexts."""
import contextlib
import io
import os
import shutil
import tempfile

from harness import framework as fw
from harness.corpus import cases_for, _files_hash, SPEC_FILES, HARNESS_FILES
from harness.tlcrun import run_tlc, marker_lines, require_ok
from harness.checks.prog import run_chunked
from harness.render import render

CFG = "INIT Init\nNEXT Next\nINVARIANT Report\nCHECK_DEADLOCK FALSE\n"
SIZES = {"quick": 150, "thorough": 1500}
DETS = ["rekey-to", "can-close-account", "can-close-asset", "missing-fee-check", "is-updatable", "is-deletable",
        "unprotected-updatable", "unprotected-deletable"]


def pick_pool(seed):
    f1 = cases_for("f1", 500, seed)["cases"]
    f3 = cases_for("f3", 120, seed)["cases"]

    def straight(d, field, op="==", app=None):
        return (d["ref"]["f"] == field and d["op"] == op and d["skel"] == 1 and d["cons"] == "assert" and d["neg"] == 0
                and d["c"] in (1, 2) and d["side"] == "L" and (app is None or d["app"] == app))
    def clean3(d, kinds, field, idx=None, app=False):
        """a straight-line contract that asserts `<field of another member> == <zero address / 0 / first constant>`"""
        return (d["ref"]["kind"] in kinds and d["ref"]["f"] == field and (idx is None or d["ref"]["i"] == idx)
                and d["skel"] == 1 and d["op"] == "==" and d["c"] == 1 and d["cons"] == "assert" and d["guard"] == "none"
                and d["second"] == 0 and d["side"] == "L" and d["app"] == app)
    def clean16(d, kinds, field, idx=None):
        return (d["ref"]["kind"] in kinds and d["ref"]["f"] == field and (idx is None or d["ref"]["i"] == idx)
                and d["skel"] == 16 and d["op"] == "==" and d["c"] == 1 and d["cons"] == "assert" and d["guard"] == "none"
                and d["second"] == 0 and d["side"] == "L" and not d["app"])
    want = [("f1", lambda d: straight(d, "RekeyTo", app=False)),
            ("f1", lambda d: straight(d, "Fee", "<=", app=False) or (d["ref"]["f"] == "Fee" and d["skel"] == 1 and not d["app"])),
            ("f1", lambda d: straight(d, "GroupIndex", app=False)),
            ("f1", lambda d: straight(d, "CloseRemainderTo", app=False)),
            ("f1", lambda d: straight(d, "OnCompletion", app=True)),
            ("f1", lambda d: straight(d, "Sender", app=True)),
            ("f3", lambda d: clean3(d, ("gtxn",), "RekeyTo", 0)),
            ("f3", lambda d: clean3(d, ("gtxn", "gtxns"), "RekeyTo", 1)),
            ("f3", lambda d: clean3(d, ("relp", "relps"), "RekeyTo")),
            ("f3", lambda d: clean3(d, ("relm", "relms"), "RekeyTo") or clean3(d, ("relm", "relms"), "Fee")),
            ("f3", lambda d: clean3(d, ("gtxn", "gtxns"), "Fee")),
            ("f3", lambda d: d["ref"]["kind"] in ("gtxn", "gtxns") and d["ref"]["f"] == "OnCompletion" and d["app"]),
            # checkers with an accepting exit inside a subroutine that has NOT seen the check (skeleton 16)
            ("f3", lambda d: clean16(d, ("gtxn",), "RekeyTo", 1)),
            ("f3", lambda d: clean16(d, ("relp",), "RekeyTo"))]
    out = []
    for fam, pred in want:
        pool = f1 if fam == "f1" else f3
        c = next((c for c in pool if pred(c["desc"]) and c not in out), None)
        if c is None:      # (a reshuffled corpus must not silently replace a sensitising contract by an arbitrary one)
            raise fw.Machinery("group pool: no generated contract matches selector %d" % (len(out) + 1))
        out.append(c)
    return out


def observe_pool(texts):
    from harness.observe import _load, _ctx, _detector_classes
    _load()
    from tealer.utils.command_line.common import init_tealer_from_single_contract
    from tealer.utils.analyses import leaf_block_global
    from tealer.utils.teal_enums import ContractType
    pool = []
    classes = _detector_classes()
    buf = io.StringIO()
    with contextlib.redirect_stdout(buf), contextlib.redirect_stderr(buf):
        for i, t in enumerate(texts):
            tl = init_tealer_from_single_contract(t, "p%d" % i)
            teal = tl.contracts["p%d" % i]
            f = teal.functions["p%d" % i]
            leaves = [_ctx(f.transaction_context(b)) for b in sorted(f.blocks, key=lambda b: b.idx) if leaf_block_global(b)]
            single = {}
            for d in DETS:
                tl._detectors = []
                tl.register_detector(classes[d])
                res = tl.run_detectors()[0]
                single[d] = any(r.paths for r in res)
            pool.append({"isApp": teal.contract_type != ContractType.LogicSig, "leaves": leaves, "single": single})
    return pool


def observe_config(cfg, texts, pool, work):
    from harness.observe import _load, _detector_classes
    _load()
    from tealer.utils.command_line.group_config import (GroupConfig, GroupConfigContract, GroupConfigFunction,
                                                        GroupConfigGroup, GroupConfigTransaction, GroupConfigFunctionCall)
    from tealer.utils.command_line.common import init_tealer_from_config
    obs = {"ok": False, "exc": "", "vuln": {d: [] for d in DETS}}
    buf = io.StringIO()
    try:
        with contextlib.redirect_stdout(buf), contextlib.redirect_stderr(buf):
            used = sorted(set(t["c"] for t in cfg["txs"]))
            contracts = []
            for c in used:
                path = os.path.join(work, "p%d.teal" % c)
                if not os.path.exists(path):
                    with open(path, "w") as fh:
                        fh.write(texts[c - 1])
                contracts.append(GroupConfigContract("P%d" % c, path, "ApprovalProgram" if pool[c - 1]["isApp"] else "LogicSig",
                                                     8, [], [GroupConfigFunction("main", ["B0"])]))
            txs = []
            for j, t in enumerate(cfg["txs"], 1):
                call = GroupConfigFunctionCall("P%d" % t["c"], "main")
                rel = {"T%d" % r["to"]: r["off"] for r in t["rel"]} or None
                if pool[t["c"] - 1]["isApp"]:
                    txs.append(GroupConfigTransaction("T%d" % j, t["typ"], application=call, has_logic_sig=None, logic_sig=None,
                                                      absolute_index=None if t["abs"] == -1 else t["abs"], relative_indexes=rel))
                else:
                    txs.append(GroupConfigTransaction("T%d" % j, t["typ"], application=None, has_logic_sig=True, logic_sig=call,
                                                      absolute_index=None if t["abs"] == -1 else t["abs"], relative_indexes=rel))
            config = GroupConfig("g", contracts, [GroupConfigGroup("op", txs)])
            tealer = init_tealer_from_config(config)
            classes = _detector_classes()
            for d in DETS:
                tealer._detectors = []
                tealer.register_detector(classes[d])
                outs = tealer.run_detectors()[0]
                ids = []
                for o in outs:
                    for txn in o.transactions:
                        ids.append(int(txn.transacton_id[1:]))
                obs["vuln"][d] = sorted(ids)
        obs["ok"] = True
    except BaseException as e:  # noqa: BLE001
        obs["exc"] = "%s: %s" % (type(e).__name__, str(e)[:200])
    return obs


def run_group(tier, seed):
    picked = pick_pool(seed)
    texts = [render(c["prog"]) for c in picked]
    pool = observe_pool(texts)
    for entry, c in zip(pool, picked):
        entry["prog"] = c["prog"]
    # pool contracts that check a field of "the transaction at my index + off"
    relc = []
    for i, c in enumerate(picked, 1):
        ref = c["desc"].get("ref", {})
        if c["fam"].startswith("f3") and ref.get("kind") in ("relp", "relps", "relm", "relms"):
            relc.append((i, ref["i"] if ref["kind"] in ("relp", "relps") else -ref["i"]))
    gcfg = ("INIT Init\nNEXT Next\nINVARIANT Emit\nCHECK_DEADLOCK FALSE\nCONSTANTS\n  Seed = %d\n  NCfg = %d\n  NPool = %d\n"
            "  RelCheckers <- RelC\n" % (seed, SIZES[tier], len(texts)))
    res = run_tlc("GroupGenMC", gcfg, workers=3, extra_modules={
        "GroupGenMC": "---- MODULE GroupGenMC ----\nEXTENDS GroupGen\nRelC == << %s >>\n====\n"
                      % ", ".join("[c |-> %d, off |-> %d]" % rc for rc in relc)})
    require_ok(res, "GroupGen")
    cfgs = sorted(marker_lines(res["stdout"], "G"), key=lambda c: c["k"])
    os.makedirs(os.path.join(fw.OUT, "work"), exist_ok=True)
    work = tempfile.mkdtemp(prefix="grp-", dir=os.path.join(fw.OUT, "work"))
    try:
        judged = [{"pid": c["k"], "txs": c["txs"], "obs": observe_config(c, texts, pool, work)} for c in cfgs]
    finally:
        shutil.rmtree(work, ignore_errors=True)
    # TLC needs a uniform shape: rel is a sequence of records, may be empty
    outs = run_chunked("GroupCheck", CFG, judged, "group", fields=("pid", "txs", "obs"), nchunks=3, extra={"pool": pool})
    ws, stats = [], []
    for o in outs:
        ws += marker_lines(o["stdout"], "W")
        stats += marker_lines(o["stdout"], "S")
    if len(stats) != len(judged):
        raise fw.Machinery("GroupCheck judged %d of %d configurations" % (len(stats), len(judged)))
    tot = {"states": sum(o["distinct"] for o in outs) + res["distinct"], "transitions": sum(o["states"] for o in outs),
           "configs": len(judged), "multi": len([s for s in stats if s["n"] > 1]),
           "with_vulnerable": len([s for s in stats if s["nv"] > 0]),
           "with_cleared_by_other": sum(s["nc"] for s in stats),
           "targets_with_two_declarers": sum(s["n2"] for s in stats), "rel_checkers": relc,
           "sound_searched": sum(s["ns"] for s in stats), "reported_with_concrete_group": sum(s["nw"] for s in stats)}
    return ws, {str(j["pid"]): j for j in judged}, tot, texts


def group_cached(tier, seed):
    key = ["group", tier, seed, fw.tree_hash(), _files_hash(SPEC_FILES(["Group", "GroupSem", "GroupGen", "GroupCheck", "Prng", "Gen", "Teal", "Cfg", "Avm", "Reps"])),
           _files_hash(HARNESS_FILES(["checks/group.py"])), SIZES[tier]]

    def build():
        ws, cases, tot, texts = run_group(tier, seed)
        return {"witnesses": ws, "cases": cases, "tot": tot, "texts": texts}
    return fw.cached(key, build)


def collect(prop, tier, seed):
    r = group_cached(tier, seed)
    tot = r["tot"]
    mine = []
    for w in r["witnesses"]:
        c = r["cases"][str(w["pid"])]
        w = dict(w)
        w["property"] = prop
        w["features"] = ["ntx:%d" % len(c["txs"])] + sorted(set("contract:%d" % t["c"] for t in c["txs"]))
        w["size"] = len(c["txs"])
        w["pipe"] = "group"
        mine.append(w)
    if (tot["multi"] == 0 or tot["with_vulnerable"] == 0 or tot["with_cleared_by_other"] == 0 or tot["targets_with_two_declarers"] == 0
            or tot["sound_searched"] == 0 or tot["reported_with_concrete_group"] == 0):
        raise fw.Machinery("vacuous: no multi-transaction configuration / no vulnerable verdict / nothing cleared by another "
                           "member / no target declared by two members: %s" % tot)
    cov = {"states": tot["states"], "transitions": tot["transitions"], "traces_validated_against_impl": tot["configs"],
           "evaluations": tot["configs"] * len(DETS), "distinct_nontrivial": tot["multi"],
           "configurations_with_a_vulnerable_transaction": tot["with_vulnerable"],
           "verdicts_cleared_by_another_member_only": tot["with_cleared_by_other"],
           "targets_declared_by_two_members": tot["targets_with_two_declarers"],
           "not_reported_pairs_searched_for_an_approved_concrete_group": tot["sound_searched"],
           "reported_pairs_with_an_approved_concrete_group_sampled": tot["reported_with_concrete_group"],
           "rule": "GroupCheck.tla: configurations of GroupGen.tla (1-3 transactions over a pool of 14 contracts that check "
                   "own fields, absolute indices 0/1, offsets +1/-1, or nothing; types txn/pay/axfer/appl; absolute indices; "
                   "relative offsets) x 8 detectors; GroupSem.tla: for every eligible transaction the tool did not report, every concrete "
                   "group consistent with the configuration (sizes up to 5, all placements, the fields some member reads) is run on "
                   "the Avm machine for every member; non-trivial = configurations with more than one transaction",
           "samples": [r["cases"][k] for k in sorted(r["cases"])[:2]]}

    def replay_of(w):
        c = r["cases"][str(w["pid"])]
        return {"property": prop, "clause": w["clause"], "detector": w["det"], "observed": w["obs"], "expected": w["exp"],
                "configuration": c["txs"], "tool": c["obs"], "contracts": r["texts"],
                "how": "bin/check %s --replay <this file>" % prop}
    return {"witnesses": mine, "cov": cov, "replay_of": replay_of,
            "assumptions": ["Group!Vulnerable is the reading of the property's clearing rules, evaluated on the tool's own leaf "
                            "contexts (the soundness of those contexts is C06-C10's business)",
                            "concrete groups: positions not configured hold Avm!DefaultTx; group sizes up to 5; only fields read by "
                            "some member (plus the detector's dangerous value on the target) are enumerated"]}
