"""Property -> pipelines.  Each pipeline is a TLC-judged exploration; a property's check is the
union of the clauses of its pipelines."""
import time

from harness import framework as fw

PIPES = {
    "C01": ["prog", "search"],
    "C02": ["search"],
    "C03": ["exact"],
    "C04": ["cfg", "prog"],
    "C05": ["cfg"],
    "C06": ["prog", "exact"],
    "C07": ["prog"],
    "C08": ["prog", "exact"],
    "C09": ["prog", "exact"],
    "C10": ["prog"],
    "C11": ["lines", "seqs"],
    "C16": ["lines"],
    "C19": ["lines", "seqs"],
    "C20": ["regex"],
    "C12": ["cut"],
    "C13": ["group"],
    "C14": ["session", "solver"],
    "C15": ["rewrite"],
    "C17": ["render"],
    "C18": ["render"],
}
LEVEL = {"C17": "exploration", "C18": "exploration", "C16": "exploration", "C19": "exploration", "C15": "exploration"}


def _pipe(name):
    return __import__("harness.checks." + name, fromlist=["collect"])


def check(prop, argv):
    t0 = time.time()
    tier, seed, replay = fw.tier_and_seed(argv)
    parts = [(_name, _pipe(_name).collect(prop, tier, seed)) for _name in PIPES[prop]]
    witnesses, assumptions, samples = [], [], []
    cov = {"states": 0, "transitions": 0, "traces_validated_against_impl": 0, "distinct_nontrivial": 0,
           "evaluations": 0, "pipelines": {}}
    for name, part in parts:
        witnesses += part["witnesses"]
        assumptions += [a for a in part["assumptions"] if a not in assumptions]
        for k in ("states", "transitions", "traces_validated_against_impl", "distinct_nontrivial"):
            cov[k] += part["cov"].get(k, 0)
        cov["evaluations"] += part["cov"].get("evaluations", part["cov"].get("traces_validated_against_impl", 0))
        samples += part["cov"].get("samples", [])[:1]
        cov["pipelines"][name] = {k: v for k, v in part["cov"].items() if k != "samples"}
    cov["samples"] = samples
    cov["rule"] = " | ".join(part["cov"]["rule"] for _n, part in parts)
    by_pipe = dict(parts)

    def replay_of(w):
        return by_pipe[w["pipe"]]["replay_of"](w)
    return fw.finish(prop, tier, seed, LEVEL.get(prop, "model_checking"), cov, assumptions, witnesses, t0, replay_of)
