"""C11(b) and C19 (program level): SeqGen programs parsed by the real tool, judged by SeqCheck.tla."""
import contextlib
import io
import re

from harness import framework as fw
from harness.corpus import _files_hash, SPEC_FILES, HARNESS_FILES
from harness.tlcrun import run_tlc, marker_lines, require_ok
from harness.checks.prog import run_chunked

CFG = "INIT Init\nNEXT Next\nINVARIANT Report\nCHECK_DEADLOCK FALSE\n"
SIZES = {"quick": 600, "thorough": 12000}
CLAUSE_PROP = {"c11": "C11", "c19": "C19"}
FLAG_INS = re.compile(r"^(\d+): .* instruction is not supported in Teal version", re.M)
FLAG_FLD = re.compile(r"^(\d+): .*, field .* is not supported in Teal version", re.M)


def gen_seqs(n, seed):
    key = ["seqcases", n, seed, _files_hash(SPEC_FILES(["AvmTable", "LineGen", "Prng", "SeqGen"]))]

    def build():
        cfg = "INIT Init\nNEXT Next\nINVARIANT Emit\nCHECK_DEADLOCK FALSE\nCONSTANTS\n  Seed = %d\n  NCases = %d\n" % (seed, n)
        res = run_tlc("SeqGen", cfg, workers=4)
        require_ok(res, "SeqGen")
        cases = marker_lines(res["stdout"], "P")
        cases.sort(key=lambda c: c["k"])
        for c in cases:
            c["pid"] = c["k"]
        return {"cases": cases, "states": res["distinct"]}
    return fw.cached(key, build)


def text_of(c):
    lines = [] if c["v"] == 0 else ["#pragma version %d" % c["v"]]
    for l in c["lines"]:
        lines.append(" ".join([l["op"]] + l["toks"]))
    return "\n".join(lines) + "\n"


def observe_seq(text):
    from harness.observe import _load
    _load()
    from tealer.teal.parse_teal import parse_teal
    from tealer.analyses.utils.stack_ast_builder import construct_stack_ast, KnownStackValue
    obs = {"ok": False, "exc": "", "version": -1, "mode": "", "ctype": "", "mixed": False, "flag_ins": [],
           "flag_field": [], "block_cost": -1, "block_lines": [], "args": []}
    out, err = io.StringIO(), io.StringIO()
    try:
        with contextlib.redirect_stdout(out), contextlib.redirect_stderr(err):
            teal = parse_teal(text)
        e = err.getvalue()
        obs.update({"ok": True, "version": int(teal.version), "mode": str(teal.mode), "ctype": str(teal.contract_type),
                    "mixed": "specific to both Application and Signature Mode" in e,
                    "flag_ins": sorted(int(x) for x in FLAG_INS.findall(e)),
                    "flag_field": sorted(int(x) for x in FLAG_FLD.findall(e))})
        bb = teal.bbs[0]
        obs["block_cost"] = int(bb.cost)
        m = re.search(r"cost = (\d+)", bb.tealer_comments[0]) if bb.tealer_comments else None
        obs["block_cost_shown"] = int(m.group(1)) if m else -1
        obs["block_lines"] = [int(i.line) for i in bb.instructions]
        ast = construct_stack_ast(bb)
        construct_stack_ast.cache_clear()
        args = []
        for ins in bb.instructions:
            if ins.__class__.__name__ == "Pragma":
                continue
            a = []
            for v in ast[ins].args:
                if isinstance(v, KnownStackValue):
                    a.append([int(v.instruction.line), int(v.ins_out_values_index)])
                else:
                    a.append([0, 0])
            args.append(a)
        obs["args"] = args
    except BaseException as e:  # noqa: BLE001
        obs["exc"] = "%s: %s" % (type(e).__name__, str(e)[:150])
    return obs


def run_seqs(tier, seed):
    gen = gen_seqs(SIZES[tier], seed)
    judged = []
    for c in gen["cases"]:
        t = text_of(c)
        judged.append({"pid": c["pid"], "v": c["v"], "fam": c["fam"], "lines": c["lines"], "nlive": c["nlive"], "text": t,
                       "obs": observe_seq(t)})
    outs = run_chunked("SeqCheck", CFG, judged, "seqs", fields=("pid", "v", "lines", "nlive", "obs"))
    witnesses, n = [], 0
    for o in outs:
        witnesses += marker_lines(o["stdout"], "W")
        n += len(marker_lines(o["stdout"], "S"))
    if n != len(judged):
        raise fw.Machinery("SeqCheck judged %d of %d programs" % (n, len(judged)))
    tot = {"states": sum(o["distinct"] for o in outs) + gen["states"], "transitions": sum(o["states"] for o in outs),
           "programs": len(judged),
           "known_args": sum(1 for j in judged for a in j["obs"]["args"] for x in a if x != [0, 0]),
           "flagged": len([j for j in judged if j["obs"]["flag_ins"] or j["obs"]["flag_field"]]),
           "with_dead_code": len([j for j in judged if j["nlive"] < len(j["lines"])])}
    return witnesses, {j["pid"]: {"text": j["text"], "obs": j["obs"], "fam": j["fam"], "v": j["v"]} for j in judged}, tot


def seqs_cached(tier, seed):
    key = ["seqs", tier, seed, fw.tree_hash(), _files_hash(SPEC_FILES(["AvmTable", "LineGen", "Prng", "SeqGen", "SeqCheck"])),
           _files_hash(HARNESS_FILES(["checks/seqs.py"]))]

    def build():
        w, cases, tot = run_seqs(tier, seed)
        return {"witnesses": w, "cases": {str(k): v for k, v in cases.items()}, "tot": tot}
    r = fw.cached(key, build)
    return r["witnesses"], {int(k): v for k, v in r["cases"].items()}, r["tot"]


def collect(prop, tier, seed):
    witnesses, cases, tot = seqs_cached(tier, seed)
    mine = []
    for w in witnesses:
        if CLAUSE_PROP.get(w["clause"][:3]) != prop:
            continue
        c = cases[w["pid"]]
        w = dict(w)
        w["property"] = prop
        line = ""
        if w["b"] > 0:
            ls = c["text"].split("\n")
            line = ls[w["b"] - 1].split(" ")[0] if w["b"] - 1 < len(ls) else ""
        w["det"] = line
        ops = sorted(set(l.split(" ")[0] for l in c["text"].split("\n") if l and not l.startswith("#")))
        w["features"] = ["fam:" + c["fam"], "ver:%d" % c["v"]] + (["op:" + line] if line else []) + ["has:" + o for o in ops]
        w["size"] = len(c["text"])
        w["pipe"] = "seqs"
        mine.append(w)
    if tot["known_args"] == 0 or tot["flagged"] == 0 or tot["with_dead_code"] == 0:
        raise fw.Machinery("vacuous: no reconstructed operand / no flagged line / no program with dead code")
    cov = {"evaluations": tot["programs"], "distinct_nontrivial": tot["flagged"], "states": tot["states"],
           "transitions": tot["transitions"], "traces_validated_against_impl": tot["programs"],
           "reconstructed_operands_compared": tot["known_args"], "programs_with_dead_code": tot["with_dead_code"],
           "rule": "SeqCheck.tla: straight-line programs of 3-10 lines over the whole opcode table (SeqGen.tla, "
                   "families any / shuffle; one in four ends early with `int 7; return` followed by dead code), declared version 1-8 or none; non-trivial = programs with at least one "
                   "line flagged for its version",
           "samples": [cases[k]["text"] for k in sorted(cases)[:3]]}

    def replay_of(w):
        c = cases[w["pid"]]
        return {"property": prop, "clause": w["clause"], "line": w["b"], "observed": w["obs"], "expected": w["exp"],
                "teal": c["text"], "how": "bin/check %s --replay <this file>" % prop}
    return {"witnesses": mine, "cov": cov, "replay_of": replay_of,
            "assumptions": ["AvmTable.tla is the reading of the AVM specification (rows marked unsure are not enforced)",
                            "operands are compared on straight-line single-block programs"]}
