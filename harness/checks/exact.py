"""C03 and the exactness halves of C06 / C08 / C09: PathSem walks (ExactWalk.tla, phase 1)
and their comparison with the tool's per-block sets and verdicts (ExactJudge.tla, phase 2)."""
import os
import time

from harness import framework as fw
from harness.corpus import observed, _files_hash, SPEC_FILES, HARNESS_FILES
from harness.tlcrun import marker_lines
from harness.checks.prog import run_chunked, features

CFG = "INIT Init\nNEXT Next\nINVARIANT Report\nCHECK_DEADLOCK FALSE\n"
SIZES = {"quick": {"f1": 500, "f2": 250}, "thorough": {"f1": 6000, "f2": 3000}}
FAMILIES = ("f1", "f2")
CLAUSE_PROP = {"c03": "C03", "c06": "C06", "c08": "C08", "c09": "C09"}


def run_exact(tier, seed):
    witnesses, tot = [], {"states": 0, "transitions": 0, "programs": 0, "facts": 0, "nontrivial": 0}
    for fam in FAMILIES:
        cases, gen = observed(fam, SIZES[tier][fam], seed, ("cfg", "func", "ctx", "det"))
        # the direct-check fragment of C03 / the exactness clauses excludes recursion (skeleton 26)
        ok = [c for c in cases if c["obs"]["ok"] and c["desc"].get("skel") != 26]
        tot["programs"] += len(ok)
        slim = [{"pid": c["pid"], "prog": c["prog"], "obs": {"ok": True}} for c in ok]
        outs = run_chunked("ExactWalk", CFG, slim, "walk-%s" % fam)
        tot["states"] += sum(o["distinct"] for o in outs)
        tot["transitions"] += sum(o["states"] for o in outs)
        facts = {}
        seen = set()
        for o in outs:
            for f in marker_lines(o["stdout"], "F"):
                key = (f["pid"], f["f"], f["v"], f["mode"], tuple(f["bs"]))
                if key in seen:
                    continue
                seen.add(key)
                facts.setdefault(f["pid"], []).append({"f": f["f"], "v": f["v"], "mode": f["mode"], "bs": f["bs"]})
        tot["facts"] += len(seen)
        judge = []
        for c in ok:
            judge.append({"pid": c["pid"], "prog": c["prog"], "feas": facts.get(c["pid"], []),
                          "obs": {"ok": True, "ctx": c["obs"]["ctx"],
                                  "det": {k: {"paths": v["paths"]} for k, v in c["obs"]["det"].items()}}})
        tot["nontrivial"] += len([j for j in judge if len(set(x["f"] for x in j["feas"])) > 1])
        outs = run_chunked("ExactJudge", CFG, judge, "judge-%s" % fam)
        tot["states"] += sum(o["distinct"] for o in outs)
        tot["transitions"] += sum(o["states"] for o in outs)
        nstat = 0
        for o in outs:
            for w in marker_lines(o["stdout"], "W"):
                w["fam"] = fam
                witnesses.append(w)
            nstat += len(marker_lines(o["stdout"], "S"))
        if nstat != len(ok):
            raise fw.Machinery("ExactJudge judged %d of %d programs of %s" % (nstat, len(ok), fam))
    return witnesses, tot


def exact_cached(tier, seed):
    key = ["exact", tier, seed, fw.tree_hash(), _files_hash(SPEC_FILES(['Teal', 'Cfg', 'Avm', 'Reps', 'PathSem', 'PathReach', 'ExactWalk', 'ExactJudge'])), _files_hash(HARNESS_FILES(['checks/exact.py'])), SIZES[tier]]

    def build():
        w, tot = run_exact(tier, seed)
        return {"witnesses": w, "tot": tot}
    r = fw.cached(key, build)
    cases = {}
    for fam in FAMILIES:
        cs, _ = observed(fam, SIZES[tier][fam], seed, ("cfg", "func", "ctx", "det"))
        for c in cs:
            cases[(fam, c["pid"])] = c
    return r["witnesses"], cases, r["tot"]


def collect(prop, tier, seed):
    witnesses, cases, tot = exact_cached(tier, seed)
    mine = []
    for w in witnesses:
        if CLAUSE_PROP.get(w["clause"][:3]) != prop:
            continue
        c = cases[(w["fam"], w["pid"])]
        w = dict(w)
        w["property"] = prop
        w["features"] = features(c, w)
        # where the witness sits: the last block of a text that ends with a label (the program runs off its end there)
        lines = [l for l in c["teal"].split("\n") if l]
        if lines and lines[-1].endswith(":"):
            w["features"].append("ends:label")
        ids = [b["id"] for b in c["obs"].get("bbs", [])]
        if ids and w.get("b") == max(ids):
            w["features"].append("at:last-block")
        w["size"] = len(c["teal"])
        w["pipe"] = "exact"
        mine.append(w)
    if tot["nontrivial"] == 0:
        raise fw.Machinery("vacuous: no program compares a governed field")
    cov = {
        "states": tot["states"], "transitions": tot["transitions"],
        "traces_validated_against_impl": tot["programs"], "programs": tot["programs"],
        "facts": tot["facts"], "distinct_nontrivial": tot["nontrivial"],
        "rule": "ExactWalk/ExactJudge.tla: direct-check programs (families f1, f2 of Gen.tla); every PathSem walk "
                "for every governed field and value (matched and call-site-merged returns); non-trivial = some "
                "governed field is compared",
        "samples": [cases[k]["teal"] for k in sorted(cases)[:2]],
    }

    def replay_of(w):
        c = cases[(w["fam"], w["pid"])]
        return {"property": prop, "clause": w["clause"], "detail": w["det"], "block": w["b"],
                "observed": w["obs"], "expected": w["exp"], "teal": c["teal"], "desc": c["desc"],
                "features": w["features"],
                "tool_context_of_block": c["obs"].get("ctx", {}).get(str(w["b"]), {}),
                "how": "bin/check %s --replay <this file>" % prop}
    return {"witnesses": mine, "cov": cov, "replay_of": replay_of,
            "assumptions": ["PathSem.tla is the 'comparisons exact, everything else free' semantics of the property",
                            "two-field detectors: fields independent, conjoined per block",
                            "exactness is claimed on Gen.tla families f1, f2 (no recursion)"]}
