"""C14: histories of Session.tla replayed in real processes (also under other hash seeds); the recorded
results are validated as traces by SessionTrace.tla."""
import json
import os
import subprocess
import sys
from concurrent.futures import ThreadPoolExecutor

from harness import framework as fw
from harness.corpus import cases_for, _files_hash, SPEC_FILES, HARNESS_FILES
from harness.tlcrun import run_tlc, marker_lines, require_ok
from harness.render import render
from harness.observe import DETECTORS

SIZES = {"quick": {"hist": 36, "seeds": ["0", "1", "2", "random"]},
         "thorough": {"hist": 400, "seeds": ["0", "1", "2", "3", "7", "random", "random", "random"]}}
# two further contracts are written by hand: they compare address fields with RUN-TIME operands (outside the fragment of
# C01-C10, inside C14's quantifier: "all sequences of previously analysed contracts") - the tool names such operands
# symbolically, and the names must not depend on what was analysed before
EXTRA = ["#pragma version 6\ntxn RekeyTo\ntxn Sender\n==\nassert\ntxn CloseRemainderTo\nglobal ZeroAddress\n==\nbz fail\nint 1\nreturn\nfail:\nerr\n",
         "#pragma version 6\ntxn CloseRemainderTo\ntxn Receiver\n==\nassert\nload 3\ntxn AssetCloseTo\n==\nassert\nint 1\nreturn\n"]
# ... and two contracts with a subroutine of the SAME name (`sa`, the name the generated contracts use as well) in which
# the execution can end, guarded differently: anything remembered per subroutine name across analyses shows here
EXTRA += ["#pragma version 6\ntxn NumAppArgs\ncallsub sa\nglobal GroupSize\nint 2\n==\nassert\nint 1\nreturn\nsa:\nbz fin\nretsub\nfin:\nint 1\nreturn\n",
          "#pragma version 6\ntxn NumAppArgs\ncallsub sa\nglobal GroupSize\nint 2\n==\nassert\nint 1\nreturn\nsa:\nbz fin\nretsub\nfin:\n"
          "global GroupSize\nint 3\n==\ntxn Fee\nint 1000\n<=\n&&\ntxn RekeyTo\nglobal ZeroAddress\n==\n&&\nassert\nint 1\nreturn\n"]
# ... and two contracts that differ ONLY in the index a `gtxns` on the same line takes from the stack (absolute 0 / 1, then
# GroupIndex + 1 / GroupIndex - 1 on a second shared line): anything remembered per instruction text or line across analyses
# (a memoised index classification, seeded change C10-d) shows as a different result for the contract analysed second
_A1 = "AEAQCAIBAEAQCAIBAEAQCAIBAEAQCAIBAEAQCAIBAEAQCAIBAEA5RCDXMI"
EXTRA += ["#pragma version 6\nint 0\ngtxns RekeyTo\naddr %s\n==\nassert\ntxn GroupIndex\nint 1\n+\ngtxns Fee\nint 1000\n<=\nassert\nint 1\nreturn\n" % _A1,
          "#pragma version 6\nint 1\ngtxns RekeyTo\naddr %s\n==\nassert\ntxn GroupIndex\nint 1\n-\ngtxns Fee\nint 1000\n<=\nassert\nint 1\nreturn\n" % _A1]
NCONTRACTS = 14
ORDERS = [DETECTORS, list(reversed(DETECTORS)), DETECTORS[4:] + DETECTORS[:4]]
MAXLEN = 3


def pick_contracts(seed):
    """eight sensitising contracts: != on sizes / indices / kinds, shared and nested subroutines, group reads"""
    f1 = cases_for("f1", 500, seed)["cases"]
    f3 = cases_for("f3", 120, seed)["cases"]
    want = [("f1", lambda d: d["ref"]["f"] == "GroupSize" and d["op"] == "!="),
            ("f1", lambda d: d["ref"]["f"] == "GroupIndex" and d["op"] == "!="),
            ("f1", lambda d: d["ref"]["f"] == "TypeEnum" and d["op"] == "!="),
            ("f1", lambda d: d["ref"]["f"] == "OnCompletion" and d["op"] == "!="),
            ("f1", lambda d: d["ref"]["f"] == "RekeyTo" and d["skel"] == 11),
            ("f1", lambda d: d["skel"] == 19),            # switch with two labels (successor order)
            ("f3", lambda d: d["ref"]["kind"] == "gtxn"),
            ("f3", lambda d: d["ref"]["kind"] in ("relp", "relm"))]
    out = []
    for fam, pred in want:
        pool = f1 if fam == "f1" else f3
        c = next((c for c in pool if pred(c["desc"]) and c not in out), None)
        if c is None:
            raise fw.Machinery("session pool: no generated contract matches selector %d" % (len(out) + 1))
        out.append(c)
    return out


def run_history(job, hashseed):
    env = dict(os.environ)
    if hashseed == "random":
        env.pop("PYTHONHASHSEED", None)
        env["PYTHONHASHSEED"] = "random"
    else:
        env["PYTHONHASHSEED"] = hashseed
    p = subprocess.run([sys.executable, os.path.join(fw.VERIF, "harness", "session_run.py")], input=json.dumps(job),
                       capture_output=True, text=True, env=env, timeout=900)
    if p.returncode != 0:
        raise fw.Machinery("session_run failed: %s" % p.stderr[-500:])
    return json.loads(p.stdout.strip().splitlines()[-1])


def run_session(tier, seed):
    cfgsz = SIZES[tier]
    contracts = pick_contracts(seed)
    texts = [render(c["prog"]) for c in contracts] + EXTRA
    gcfg = ("INIT GInit\nNEXT GNext\nINVARIANT Emit\nCHECK_DEADLOCK FALSE\nCONSTANTS\n  NContracts = %d\n  NOrders = %d\n"
            "  Seed = %d\n  NHist = %d\n  MaxLen = %d\n  All = FALSE\n" % (NCONTRACTS, len(ORDERS), seed, cfgsz["hist"], MAXLEN))
    res = run_tlc("SessionGen", gcfg, workers=2)
    require_ok(res, "SessionGen")
    hists = sorted(marker_lines(res["stdout"], "H"), key=lambda h: h["k"])
    # resolve rerun targets are implicit; pure results: one fresh process per contract, hash seed 0
    jobs = []
    for c in range(1, NCONTRACTS + 1):
        jobs.append(("pure", c, "0", {"contracts": texts, "orders": ORDERS, "hist": [{"kind": "analyse", "c": c, "o": 1}]}))
    for i, h in enumerate(hists):
        hs = cfgsz["seeds"][i % len(cfgsz["seeds"])]
        jobs.append(("hist", h["k"], hs, {"contracts": texts, "orders": ORDERS, "hist": h["hist"]}))
    with ThreadPoolExecutor(6) as ex:
        outs = list(ex.map(lambda j: run_history(j[3], j[2]), jobs))
    pure = [None] * NCONTRACTS
    traces = []
    for (kind, k, hs, job), digs in zip(jobs, outs):
        if kind == "pure":
            pure[k - 1] = digs[0]
        else:
            ev = []
            for a, d in zip(job["hist"], digs):
                ev.append({"kind": a["kind"], "c": a["c"], "o": a["o"], "digest": d})
            traces.append({"tid": k, "seed": hs, "events": ev})
    path = os.path.join(fw.OUT, "work", "session-%d.json" % os.getpid())
    os.makedirs(os.path.dirname(path), exist_ok=True)
    with open(path, "w") as fh:
        json.dump({"traces": traces, "pure": pure}, fh)
    tcfg = ("INIT TInit\nNEXT TNext\nINVARIANT Report\nCHECK_DEADLOCK FALSE\nCONSTANTS\n  NContracts = %d\n  NOrders = %d\n"
            % (NCONTRACTS, len(ORDERS)))
    try:
        res2 = run_tlc("SessionTrace", tcfg, env={"OBS_FILE": path}, workers=2)
    finally:
        os.unlink(path)
    require_ok(res2, "SessionTrace")
    ws = marker_lines(res2["stdout"], "W")
    accepted = set(t["pid"] for t in marker_lines(res2["stdout"], "T"))
    tot = {"states": res["distinct"] + res2["distinct"], "transitions": res["states"] + res2["states"],
           "histories": len(traces), "accepted": len(accepted),
           "multi_action": len([t for t in traces if len(t["events"]) > 1]),
           "hash_seeds": sorted(set(t["seed"] for t in traces)), "pure_exceptions": [p for p in pure if p.startswith("EXC")]}
    if len(accepted) + len(set(w["pid"] for w in ws)) != len(traces):
        raise fw.Machinery("SessionTrace classified %d+%d of %d traces" % (len(accepted), len(ws), len(traces)))
    return ws, {str(t["tid"]): t for t in traces}, tot, texts


def session_cached(tier, seed):
    key = ["session", tier, seed, fw.tree_hash(), _files_hash(SPEC_FILES(["Session", "SessionGen", "SessionTrace", "Prng", "Gen", "Teal"])),
           _files_hash(HARNESS_FILES(["session_run.py", "checks/session.py"])), SIZES[tier]]

    def build():
        ws, traces, tot, texts = run_session(tier, seed)
        return {"witnesses": ws, "traces": traces, "tot": tot, "texts": texts}
    return fw.cached(key, build)


def collect(prop, tier, seed):
    r = session_cached(tier, seed)
    tot = r["tot"]
    mine = []
    for w in r["witnesses"]:
        w = dict(w)
        w["property"] = prop
        w["det"] = w["kind"]
        w["b"] = -1
        w["features"] = ["seed:" + str(w["seed"]), "step:%d" % w["step"], "contract:%d" % w["c"]]
        w["size"] = w["step"]
        w["pipe"] = "session"
        mine.append(w)
    if tot["pure_exceptions"]:
        raise fw.Machinery("a sensitising contract is not analysable: %s" % tot["pure_exceptions"])
    if tot["multi_action"] == 0:
        raise fw.Machinery("vacuous: no history with more than one action")
    cov = {"states": tot["states"], "transitions": tot["transitions"], "traces_validated_against_impl": tot["histories"],
           "evaluations": tot["histories"], "distinct_nontrivial": tot["multi_action"], "hash_seeds": tot["hash_seeds"],
           "rule": "SessionTrace.tla: histories of Session.tla (up to %d actions over %d sensitising contracts (8 generated, 2 with run-time address operands, 2 with a same-named subroutine that approves by itself, 2 that differ only in the index a same-line gtxns takes from the stack) x %d detector "
                   "orders, Rerun included) drawn by SessionGen.tla, each replayed in one fresh interpreter (hash seeds "
                   "rotating) and validated as a trace against the results of fresh single-action processes; non-trivial = "
                   "histories with more than one action" % (MAXLEN, NCONTRACTS, len(ORDERS)),
           "samples": [r["traces"][k] for k in sorted(r["traces"])[:2]]}

    def replay_of(w):
        t = r["traces"][str(w["pid"])]
        return {"property": prop, "clause": w["clause"], "history": t, "hash_seed": w["seed"], "step": w["step"],
                "observed_digest": w["obs"], "expected_digest": w["exp"], "contracts": r["texts"],
                "how": "bin/check %s --replay <this file>" % prop}
    return {"witnesses": mine, "cov": cov, "replay_of": replay_of,
            "assumptions": ["results are compared through a SHA-256 digest of (contexts as sorted lists, paths as ordered "
                            "lists, to_json() text)", "Pure results are taken from fresh processes with PYTHONHASHSEED=0"]}
