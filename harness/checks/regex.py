"""C20: the regex engine on generated programs; queries and verdicts both come from RegexCheck.tla."""
import contextlib
import io

from harness import framework as fw
from harness.corpus import cases_for, _files_hash, SPEC_FILES, HARNESS_FILES
from harness.tlcrun import marker_lines
from harness.checks.prog import run_chunked
from harness.render import render

CFG_Q = "INIT Init\nNEXT Next\nINVARIANT QEmit\nCHECK_DEADLOCK FALSE\n"
CFG = "INIT Init\nNEXT Next\nINVARIANT Report\nCHECK_DEADLOCK FALSE\n"
SIZES = {"quick": {"layout": 60, "f1": 60}, "thorough": {"layout": 1500, "f1": 600}}
FAMILIES = ("layout", "f1")


def observe_query(text, label, pattern):
    from harness.observe import _load
    _load()
    from tealer.teal.parse_teal import parse_teal
    from tealer.utils.regex.regex import parse_regex, match_regex
    obs = {"ok": False, "exc": "", "matches": [], "covered": []}
    out, err = io.StringIO(), io.StringIO()
    try:
        with contextlib.redirect_stdout(out), contextlib.redirect_stderr(err):
            teal = parse_teal(text)
            rx = parse_regex(label + " =>\n" + render(pattern))
            matches, covered = match_regex(teal, rx)
        obs.update({"ok": True, "matches": [[int(i.line) for i in m] for m in matches],
                    "covered": sorted(int(i.line) for i in covered)})
    except BaseException as e:  # noqa: BLE001
        obs["exc"] = "%s: %s" % (type(e).__name__, str(e)[:150])
    return obs


def run_regex(tier, seed):
    witnesses, cases_by, tot = [], {}, {"states": 0, "transitions": 0, "queries": 0, "with_match": 0, "with_path": 0}
    for fam in FAMILIES:
        gen = cases_for(fam, SIZES[tier][fam], seed, sentinels=False)
        progs = [{"pid": c["pid"], "prog": c["prog"]} for c in gen["cases"]]
        outs = run_chunked("RegexCheck", CFG_Q, progs, "regexq-%s" % fam, fields=("pid", "prog"), nchunks=2)
        queries = []
        for o in outs:
            queries += marker_lines(o["stdout"], "Q")
        by = {c["pid"]: c for c in gen["cases"]}
        judged = []
        seen = set()
        for q in queries:
            key = (q["pid"], str(q["query"]))
            if key in seen:
                continue
            seen.add(key)
            text = render(by[q["pid"]]["prog"])
            judged.append({"pid": len(judged) + 1, "prog": by[q["pid"]]["prog"], "query": q["query"], "text": text,
                           "fam": fam, "obs": observe_query(text, q["query"]["label"], q["pattern"])})
        outs = run_chunked("RegexCheck", CFG, judged, "regex-%s" % fam, fields=("pid", "prog", "query", "obs"))
        tot["states"] += sum(o["distinct"] for o in outs)
        tot["transitions"] += sum(o["states"] for o in outs)
        n = 0
        for o in outs:
            for w in marker_lines(o["stdout"], "W"):
                w["fam"] = fam
                witnesses.append(w)
            for s in marker_lines(o["stdout"], "S"):
                n += 1
                tot["with_match"] += 1 if s["nm"] > 0 else 0
                tot["with_path"] += 1 if s["np"] > 1 else 0
        if n != len(judged):
            raise fw.Machinery("RegexCheck judged %d of %d queries" % (n, len(judged)))
        tot["queries"] += len(judged)
        for j in judged:
            cases_by["%s/%d" % (fam, j["pid"])] = {"text": j["text"], "query": j["query"], "obs": j["obs"]}
    return witnesses, cases_by, tot


def regex_cached(tier, seed):
    key = ["regex", tier, seed, fw.tree_hash(), _files_hash(SPEC_FILES(["Teal", "Cfg", "RegexCheck", "Gen", "Prng"])),
           _files_hash(HARNESS_FILES(["checks/regex.py"])), SIZES[tier]]

    def build():
        w, cases, tot = run_regex(tier, seed)
        return {"witnesses": w, "cases": cases, "tot": tot}
    r = fw.cached(key, build)
    return r["witnesses"], r["cases"], r["tot"]


def collect(prop, tier, seed):
    witnesses, cases, tot = regex_cached(tier, seed)
    mine = []
    for w in witnesses:
        c = cases["%s/%d" % (w["fam"], w["pid"])]
        w = dict(w)
        w["property"] = prop
        w["det"] = ""
        w["b"] = -1
        w["features"] = ["fam:" + w["fam"]]
        w["size"] = len(c["text"])
        w["pipe"] = "regex"
        mine.append(w)
    if tot["with_match"] == 0 or tot["with_path"] == 0:
        raise fw.Machinery("vacuous: no query with a match / with a path to a match")
    cov = {"states": tot["states"], "transitions": tot["transitions"], "traces_validated_against_impl": tot["queries"],
           "evaluations": tot["queries"], "distinct_nontrivial": tot["with_path"], "queries_with_match": tot["with_match"],
           "rule": "RegexCheck.tla: for each generated program (layout grammar with joins / loops / dead code, and f1) "
                   "the queries of RegexCheck!Queries (start label or *, patterns of 1-3 instructions cut out of the "
                   "text, an absent pattern, an unknown label); non-trivial = queries with a non-empty path set",
           "samples": [cases[k] for k in sorted(cases)[:2]]}

    def replay_of(w):
        c = cases["%s/%d" % (w["fam"], w["pid"])]
        return {"property": prop, "clause": w["clause"], "observed": w["obs"], "expected": w["exp"], "teal": c["text"],
                "query": c["query"], "tool": c["obs"], "how": "bin/check %s --replay <this file>" % prop}
    return {"witnesses": mine, "cov": cov, "replay_of": replay_of,
            "assumptions": ["instruction-level control flow is that of Teal.tla (fall-through + jump targets); "
                            "instructions are compared as records, i.e. by their canonical text"]}
