"""C17 (everything completes) and C18 (exports denote the internal results): RenderCheck.tla over the
layout family and a sample of the check families, with every subcommand run through tealer's main()."""
import os
import re
from multiprocessing import Pool

from harness import framework as fw
from harness.corpus import observed, _files_hash, SPEC_FILES, HARNESS_FILES
from harness.tlcrun import marker_lines
from harness.checks.prog import run_chunked

CFG = "INIT Init\nNEXT Next\nINVARIANT Report\nCHECK_DEADLOCK FALSE\n"
SIZES = {"quick": {"layout": 150, "f1": 60, "f3": 30}, "thorough": {"layout": 1200, "f1": 400, "f3": 150}}
FAMILIES = ("layout", "f1", "f3")
FILTERS = ["-> 2$", "^0 -> 1 ->"]
CLAUSE_PROP = {"c17": "C17", "c18": "C18"}


def _nid(s):
    if s.startswith("x"):
        return -(1 + int(s[1:].split("_")[0]))
    return int(s)


def _dot(d):
    return {"nodes": [{"id": _nid(k), "lines": v["lines"], "color": v["color"], "comments": v["comments"]}
                      for k, v in d["nodes"].items()],
            "edges": [[_nid(a), _nid(b)] for a, b in d["edges"]],
            "boxes": [[_nid(a), b] for a, b in d["boxes"]]}


def _shorts(lst):
    return [[int(x) for x in s.split(" -> ")] for s in lst]


def _encode(cli):
    res = [{"check": r["check"], "count": r["count"], "paths": _shorts(r["shorts"]), "blines": r["blines"]}
           for r in cli["json"].get("result", [])]
    return {
        "cli": [{"name": c["name"], "exit": c["exit"], "exc": c["exc"]} for c in cli["cli"]],
        "json": {"success": cli["json"].get("success", False), "error": cli["json"].get("error", "?"), "result": res},
        "filters": [{"pattern": f["pattern"], "exit": f["exit"], "exc": f["exc"],
                     "result": [{"check": r["check"], "count": r["count"], "paths": _shorts(r["shorts"])}
                                for r in f["result"]]} for f in cli["filters"]],
        "dot": {
            "full": _dot(cli["dot"]["full"]),
            "subs": [{"name": k, "dot": _dot(v)} for k, v in cli["dot"]["subs"].items()],
            "callgraph": cli["dot"]["callgraph"],
            "paths": [{"check": k, "reds": v} for k, v in cli["dot"]["paths"].items()],
            "txnctx": [{"id": int(k), "comments": v["comments"]} for k, v in cli["dot"]["txnctx"].items()],
        },
    }


def _one(case):
    from harness.cliobs import observe_cli
    return _encode(observe_cli(case["teal"], filters=FILTERS))


def run_render(tier, seed):
    witnesses, tot = [], {"states": 0, "transitions": 0, "programs": 0, "commands": 0, "nontrivial": 0}
    for fam in FAMILIES:
        cases, gen = observed(fam, SIZES[tier][fam], seed, ("cfg", "func", "ctx", "det"))
        os.makedirs(os.path.join(fw.OUT, "work"), exist_ok=True)
        key = ["cli", fam, SIZES[tier][fam], seed, fw.tree_hash(),
               _files_hash(HARNESS_FILES(["cliobs.py", "checks/render.py"])), _files_hash(SPEC_FILES(["Gen", "Teal"]))]

        def build():
            with Pool(int(os.environ.get("VERIF_OBS_PROCS", "8"))) as pool:
                return pool.map(_one, cases, chunksize=4)
        clis = fw.cached(key, build)
        judge = []
        for c, x in zip(cases, clis):
            o = c["obs"]
            obs = {"ok": o["ok"], "exc": o["exc"], "version": o.get("version", 0),
                   "ctx": {k: {"sizes": v["sizes"], "indices": v["indices"]} for k, v in o.get("ctx", {}).items()},
                   "det": {k: {"paths": v["paths"]} for k, v in o.get("det", {}).items()}}
            judge.append({"pid": c["pid"], "prog": c["prog"], "obs": obs, "cli": x})
            tot["commands"] += len(x["cli"]) + len(x["filters"])
            if any(r["paths"] for r in x["json"]["result"]) and x["dot"]["subs"]:
                tot["nontrivial"] += 1
        tot["programs"] += len(judge)
        outs = run_chunked("RenderCheck", CFG, judge, "render-%s" % fam, fields=("pid", "prog", "obs", "cli"))
        tot["states"] += sum(o["distinct"] for o in outs)
        tot["transitions"] += sum(o["states"] for o in outs)
        n = 0
        for o in outs:
            for w in marker_lines(o["stdout"], "W"):
                w["fam"] = fam
                witnesses.append(w)
            n += len(marker_lines(o["stdout"], "S"))
        if n != len(judge):
            raise fw.Machinery("RenderCheck judged %d of %d programs of %s" % (n, len(judge), fam))
    return witnesses, tot


def render_cached(tier, seed):
    key = ["render", tier, seed, fw.tree_hash(), _files_hash(SPEC_FILES(["Teal", "Cfg", "RenderCheck"])),
           _files_hash(HARNESS_FILES(["cliobs.py", "checks/render.py"])), SIZES[tier]]

    def build():
        w, tot = run_render(tier, seed)
        return {"witnesses": w, "tot": tot}
    r = fw.cached(key, build)
    cases = {}
    for fam in FAMILIES:
        cs, _ = observed(fam, SIZES[tier][fam], seed, ("cfg", "func", "ctx", "det"))
        for c in cs:
            cases[(fam, c["pid"])] = c
    return r["witnesses"], cases, r["tot"]


def collect(prop, tier, seed):
    witnesses, cases, tot = render_cached(tier, seed)
    mine = []
    for w in witnesses:
        if CLAUSE_PROP.get(w["clause"][:3]) != prop:
            continue
        c = cases[(w["fam"], w["pid"])]
        w = dict(w)
        w["property"] = prop
        w["features"] = ["fam:" + w["fam"], "cmd:" + w["det"]]
        w["size"] = len(c["teal"])
        w["pipe"] = "render"
        mine.append(w)
    if tot["nontrivial"] == 0:
        raise fw.Machinery("vacuous: no program with reported paths and subroutine files")
    cov = {
        "evaluations": tot["commands"], "distinct_nontrivial": tot["nontrivial"],
        "states": tot["states"], "transitions": tot["transitions"],
        "traces_validated_against_impl": tot["programs"], "programs": tot["programs"],
        "rule": "RenderCheck.tla: for every generated program (layout grammar incl. dead code / recursion / call or "
                "branch last, plus samples of f1, f3) each of detect (text), detect --json, --filter-paths x2 and the "
                "printers cfg, subroutine-cfg, call-graph, human-summary, transaction-context is run through "
                "tealer.__main__.main(); evaluations = commands run; non-trivial = program with reported paths and "
                "per-subroutine files",
        "samples": [cases[k]["teal"] for k in sorted(cases)[:2]],
    }

    def replay_of(w):
        c = cases[(w["fam"], w["pid"])]
        return {"property": prop, "clause": w["clause"], "detail": w["det"], "block": w["b"],
                "observed": w["obs"], "expected": w["exp"], "teal": c["teal"], "desc": c["desc"],
                "how": "bin/check %s --replay <this file>" % prop}
    return {"witnesses": mine, "cov": cov, "replay_of": replay_of,
            "assumptions": ["commands are run in-process through tealer.__main__.main() with argv patched",
                            "DOT files are parsed with regular expressions (harness/cliobs.py)",
                            "Cfg.tla defines what the exports must denote"]}
