"""C14 (worklist orders): the dataflow engine as a TLA+ state machine (Solver.tla), bound to the real engine by
trace validation (SolverTrace.tla, events recorded through the TEALER_VERIF hooks) and model-checked over ALL
worklist orders on the real graphs with the real block / edge constraints (SolverAny.tla).

  c14.order-dependent   the recorded run is a behaviour of Solver.tla (trace accepted) and some other order of the
                        worklists ends with a different result (SolverAny!Confluent violated)
A rejected trace is NOT a violation of a listed property: it says that Solver.tla no longer describes the engine
(conformance drift); it is printed as CONFORMANCE-DRIFT, counted in the evidence, and the all-orders result of
that program is not claimed."""
import copy
import json
import os
from concurrent.futures import ThreadPoolExecutor

from harness import framework as fw
from harness.corpus import cases_for, _files_hash, SPEC_FILES, HARNESS_FILES
from harness.tlcrun import run_tlc, marker_lines
from harness.render import render

CONST = "CONSTANTS\n  P <- RecP\n  Keys <- RecKeys\n  Univ <- RecUniv\n  Prsv0 <- RecPrsv\n  Edge0 <- RecEdge\n"
CFG_T = "INIT TInit\nNEXT TNext\nINVARIANT Report\nCHECK_DEADLOCK FALSE\n" + CONST
DESIGN_INV = ["Bounded", "FwdFix", "BwdFix", "BwdInFwd"]
DESIGN_ACT = ["Ascending", "Progress"]
CFG_A = ("INIT AInit\nNEXT ANext\nVIEW AView\nINVARIANT Confluent\n" + "".join("INVARIANT %s\n" % i for i in DESIGN_INV)
         + "".join("PROPERTY %s\n" % i for i in DESIGN_ACT) + "CHECK_DEADLOCK FALSE\n" + CONST)
SIZES = {"quick": {"layout": 14, "f1": 4, "f3": 2}, "thorough": {"layout": 200, "f1": 80, "f2": 40, "f3": 40}}
POOL = {"layout": 150, "f1": 500, "f2": 250, "f3": 120}
POOL_T = {"layout": 2000, "f1": 6000, "f2": 3000, "f3": 1200}
MAX_ANY_BLOCKS = 11
NCORRUPT = 2
PAR = int(os.environ.get("VERIF_SOLVER_PROCS", "10"))
# many tiny TLC runs: keep the JVM from spawning 16 GC / JIT threads each
JVM = {"JAVA_TOOL_OPTIONS": "-XX:ParallelGCThreads=1 -XX:TieredStopAtLevel=1"}


def record_all(texts):
    from harness.solverobs import record
    return [record(t) for t in texts]


def _pick(cases, n):
    """n cases spread over the corpus, biggest graphs first among equals: every skeleton / layout kind gets its turn"""
    if len(cases) <= n:
        return list(cases)
    step = len(cases) / float(n)
    return [cases[int(i * step)] for i in range(n)]


def _validate(path):
    r = run_tlc("SolverTrace", CFG_T, env=dict(JVM, TRACE_FILE=path), workers=1, timeout=900)
    ws, ts = marker_lines(r["stdout"], "W"), marker_lines(r["stdout"], "T")
    if not r["ok"] and not ws:
        raise fw.Machinery("SolverTrace failed on %s:\n%s" % (path, r.get("error_tail", "")[-1500:]))
    return {"accepted": bool(ts) and not ws, "w": ws[:1], "states": r["distinct"], "transitions": r["states"]}


def _any(path):
    try:
        r = run_tlc("SolverAny", CFG_A, env=dict(JVM, TRACE_FILE=path), workers=2, timeout=240)
    except Exception:  # noqa: BLE001  (timeout)
        return {"done": False, "confluent": None, "states": 0, "transitions": 0}
    if r["ok"]:
        return {"done": True, "confluent": True, "states": r["distinct"], "transitions": r["states"]}
    if "Invariant Confluent is violated" in r["stdout"]:
        tail = [l for l in r["stdout"].splitlines() if l.startswith("/\\ ") or l.startswith("State ")][-40:]
        return {"done": True, "confluent": False, "states": r["distinct"], "transitions": r["states"], "cex": tail}
    for nm in DESIGN_INV + DESIGN_ACT:
        if ("Invariant %s is violated" % nm) in r["stdout"] or ("Action property %s is violated" % nm) in r["stdout"]:
            tail = [l for l in r["stdout"].splitlines() if l.startswith("/\\ ") or l.startswith("State ")][-40:]
            return {"done": True, "confluent": None, "design": nm, "states": r["distinct"], "transitions": r["states"], "cex": tail}
    raise fw.Machinery("SolverAny failed on %s:\n%s" % (path, r.get("error_tail", "")[-1500:]))


def _corrupt(doc, how):
    """a recorded trace with ONE field changed; must be rejected"""
    d = copy.deepcopy(doc)
    pops = [e for e in d["events"] if e["ev"] == "pop"]
    if how == 0:                                   # a value written by a pop loses / gains an element
        e = next((e for e in pops if e["val"][0]), pops[0])
        e["val"][0] = e["val"][0][1:] if e["val"][0] else [d["univ"][0][0]]
    elif how == 1:                                 # a pop event is dropped
        d["events"].remove(pops[len(pops) // 2])
    elif how == 2:                                 # the worklist after a pop gains a block that was not queued
        e = next((e for e in pops if len(e["wl"]) < len(d["prsv"]) - 1), None)
        if e is None:
            return None
        extra = next(b["b"] for b in d["prsv"] if b["b"] not in e["wl"] and b["b"] != e["b"])
        e["wl"] = e["wl"] + [extra]
    else:                                          # the recorded result differs from the last written values
        res = d["events"][-1]["result"]
        r = next((x for x in res if x["val"][0]), None)
        if r is None:
            return None
        r["val"][0] = r["val"][0][1:]
    return d


def run_solver(tier, seed):
    work = os.path.join(fw.OUT, "work", "solver-%d" % os.getpid())
    os.makedirs(work, exist_ok=True)
    items = []
    pools = POOL if tier == "quick" else POOL_T
    for fam, n in SIZES[tier].items():
        cases = cases_for(fam, pools[fam], seed, sentinels=(fam != "layout"))["cases"]
        for c in _pick(cases, n):
            items.append({"fam": c["fam"], "desc": c["desc"], "prog": c["prog"], "text": render(c["prog"])})
    recs = record_all([it["text"] for it in items])
    jobs, failed = [], []
    for it, r in zip(items, recs):
        if not r["ok"]:
            failed.append({"text": it["text"], "exc": r["exc"]})
            continue
        if not r["traces"]:
            raise fw.Machinery("no events recorded: the TEALER_VERIF hooks are missing from /repo")
        for a, tr in sorted(r["traces"].items()):
            doc = dict(tr)
            doc["prog"] = it["prog"]
            path = os.path.join(work, "t%d.json" % len(jobs))
            with open(path, "w") as fh:
                json.dump(doc, fh)
            jobs.append({"tid": len(jobs) + 1, "analysis": a, "path": path, "doc": doc, "text": it["text"], "fam": it["fam"],
                         "blocks": len(tr["prsv"]), "events": len(tr["events"])})
    # binding self-test: corrupted traces must be rejected
    cjobs = []
    big = sorted(jobs, key=lambda j: -j["events"])[:NCORRUPT]
    for i, j in enumerate(big):
        for how in range(4):
            d = _corrupt(j["doc"], how)
            if d is None:
                continue
            path = os.path.join(work, "c%d-%d.json" % (i, how))
            with open(path, "w") as fh:
                json.dump(d, fh)
            cjobs.append({"path": path, "how": how, "of": j["tid"]})
    try:
        with ThreadPoolExecutor(PAR) as ex:
            vals = list(ex.map(lambda j: _validate(j["path"]), jobs))
            cvals = list(ex.map(lambda j: _validate(j["path"]), cjobs))
            anys = list(ex.map(lambda j: _any(j["path"]) if j["blocks"] <= MAX_ANY_BLOCKS else
                               {"done": False, "confluent": None, "states": 0, "transitions": 0}, jobs))
    finally:
        import shutil
        shutil.rmtree(work, ignore_errors=True)
    accepted_corrupt = [c for c, v in zip(cjobs, cvals) if v["accepted"]]
    if accepted_corrupt:
        raise fw.Machinery("trace validation is vacuous: corrupted traces accepted: %s" % [(c["of"], c["how"]) for c in accepted_corrupt])
    out = []
    for j, v, a in zip(jobs, vals, anys):
        out.append({"tid": j["tid"], "analysis": j["analysis"], "text": j["text"], "fam": j["fam"], "blocks": j["blocks"],
                    "events": j["events"], "accepted": v["accepted"], "reject": v["w"], "any": a,
                    "trace": j["doc"] if (not v["accepted"] or a.get("confluent") is False) else None})
    tot = {"states": sum(v["states"] for v in vals) + sum(a["states"] for a in anys),
           "transitions": sum(v["transitions"] for v in vals) + sum(a["transitions"] for a in anys),
           "traces": len(jobs), "accepted": len([v for v in vals if v["accepted"]]),
           "events": sum(j["events"] for j in jobs),
           "all_orders_checked": len([a for a in anys if a["done"]]),
           "all_orders_states": sum(a["states"] for a in anys),
           "all_orders_skipped": len([a for a in anys if not a["done"]]),
           "design_held": len([a for a in anys if a["done"] and a.get("confluent") is True]),
           "design_broken": sorted({a["design"] for a in anys if a.get("design")}),
           "corrupted_rejected": len(cjobs), "analysis_failed": failed[:5], "n_failed": len(failed),
           "with_subroutines": len([j for j in jobs if "callsub" in j["text"]]),
           "max_blocks": max(j["blocks"] for j in jobs)}
    return out, tot


def solver_cached(tier, seed):
    key = ["solver", tier, seed, fw.tree_hash(), _files_hash(SPEC_FILES(["Teal", "Cfg", "Solver", "SolverTrace", "SolverAny", "Gen", "Prng"])),
           _files_hash(HARNESS_FILES(["checks/solver.py", "solverobs.py"])), SIZES[tier]]

    def build():
        out, tot = run_solver(tier, seed)
        return {"out": out, "tot": tot}
    return fw.cached(key, build)


def collect(prop, tier, seed):
    r = solver_cached(tier, seed)
    tot = r["tot"]
    mine, drift = [], []
    for o in r["out"]:
        if not o["accepted"]:
            drift.append(o)
            continue
        if o["any"].get("confluent") is False:
            mine.append({"pid": o["tid"], "property": prop, "clause": "c14.order-dependent", "det": o["analysis"], "b": -1,
                         "obs": "a worklist order of Solver.tla ends with another result than the recorded run",
                         "exp": "the recorded result under every order", "features": ["fam:" + o["fam"], "analysis:" + o["analysis"]],
                         "size": len(o["text"]), "pipe": "solver", "_o": o})
    for o in drift[:5]:
        path = fw.write_replay(prop, 7000 + o["tid"], {"property": prop, "kind": "conformance-drift", "analysis": o["analysis"],
                                                        "teal": o["text"], "first_event_not_a_step_of_Solver.tla": o["reject"],
                                                        "trace": o["trace"]})
        print("CONFORMANCE-DRIFT property=%s analysis=%s: the recorded run of the dataflow engine is not a behaviour of "
              "Solver.tla (%s); the all-orders result is not claimed for this program" % (prop, o["analysis"], path))
    for o in [o for o in r["out"] if o["accepted"] and o["any"].get("design")][:5]:
        print("ENGINE-DESIGN-NOTE property=%s analysis=%s: under some worklist order the engine described by Solver.tla breaks the "
              "design property %s (not a listed property; the all-orders result is not claimed for this program)"
              % (prop, o["analysis"], o["any"]["design"]))
    if tot["traces"] == 0 or tot["with_subroutines"] == 0 or (tot["all_orders_checked"] == 0 and not drift):
        raise fw.Machinery("vacuous: no trace / no program with subroutines / no all-orders run: %s" % tot)
    cov = {"states": tot["states"], "transitions": tot["transitions"], "traces_validated_against_impl": tot["traces"],
           "evaluations": tot["traces"], "distinct_nontrivial": tot["with_subroutines"],
           "traces_accepted": tot["accepted"], "conformance_drift": len(drift), "events_validated": tot["events"],
           "all_orders_model_checked": tot["all_orders_checked"], "all_orders_distinct_states": tot["all_orders_states"],
           "all_orders_skipped_too_large": tot["all_orders_skipped"],
           "engine_design_properties_held_on": tot.get("design_held", 0), "engine_design_properties_broken": tot.get("design_broken", []), "corrupted_traces_rejected": tot["corrupted_rejected"],
           "programs_the_tool_could_not_analyse": tot["n_failed"], "largest_graph_blocks": tot["max_blocks"],
           "rule": "SolverTrace.tla / SolverAny.tla: for programs of layout/f1/f2/f3 the runs of the real forward/backward "
                   "worklist engine (GroupIndices and TxnType, base keys; TEALER_VERIF hooks) are validated event by event "
                   "against Solver.tla (FIFO pop, value written = the specification's equation on the current state, blocks "
                   "re-queued = the specified dependents), %d corrupted copies must be rejected, and for graphs of at most %d "
                   "blocks TLC explores EVERY worklist order on the recorded graph and constraints and checks that all end "
                   "with the recorded result (Confluent) and, on every transition of every order, the engine's design properties "
                   "Ascending, Progress (well-founded measure: every order terminates), Bounded, FwdFix / BwdFix (an empty worklist "
                   "means a fixpoint: the re-queueing relation covers every dependency) and BwdInFwd; non-trivial = traces of programs with subroutines"
                   % (tot["corrupted_rejected"], MAX_ANY_BLOCKS),
           "samples": [{"teal": o["text"], "analysis": o["analysis"], "events": o["events"]} for o in r["out"][:1]]}

    def replay_of(w):
        o = w["_o"]
        return {"property": prop, "clause": w["clause"], "analysis": o["analysis"], "teal": o["text"], "trace": o["trace"],
                "counterexample_tail": o["any"].get("cex", []), "how": "bin/check %s --replay <this file>" % prop}
    return {"witnesses": mine, "cov": cov, "replay_of": replay_of,
            "assumptions": ["Solver.tla treats the block and edge constraints and the initial worklists as input (recorded)",
                            "the order in which newly queued blocks are appended is left free (Solver!Appended)",
                            "a rejected trace is reported as conformance drift, not as a violation"]}
