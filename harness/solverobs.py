"""Records runs of the real dataflow engine (generic.DataflowTransactionContext) through the TEALER_VERIF hooks:
one trace per traced analysis (GroupIndices, TxnType; base keys) of one contract."""
import contextlib
import io
import os

ANALYSES = ("GroupIndices", "TxnType")


def record(text):
    """-> {"ok", "exc", "traces": {analysis: {keys, univ, prsv, edges, events}}}"""
    from harness.observe import _load
    _load()
    os.environ["TEALER_VERIF"] = "1"
    from tealer.utils import verif_trace
    from tealer.utils.command_line.common import init_tealer_from_single_contract
    verif_trace.take()
    buf = io.StringIO()
    res = {"ok": False, "exc": "", "traces": {}}
    try:
        with contextlib.redirect_stdout(buf), contextlib.redirect_stderr(buf):
            init_tealer_from_single_contract(text, "c")
    except BaseException as e:  # noqa: BLE001
        res["exc"] = "%s: %s" % (type(e).__name__, str(e)[:150])
        verif_trace.take()
        return res
    finally:
        os.environ.pop("TEALER_VERIF", None)
    events = verif_trace.take()
    for a in ANALYSES:
        evs = [e for e in events if e["analysis"] == a]
        if not evs:
            continue
        init = evs[0]
        if init["ev"] != "init":
            res["exc"] = "first event of %s is %s" % (a, init["ev"])
            return res
        nxt = [i for i, e in enumerate(evs) if e["ev"] == "init"]
        if len(nxt) > 1:                       # several functions: keep the first (the whole contract)
            evs = evs[:nxt[1]]
        tr = {"keys": len(init["keys"]), "names": init["keys"], "univ": init["univ"], "prsv": init["prsv"],
              "edges": init["edges"], "events": []}
        for e in evs[1:]:
            r = {"ev": e["ev"], "phase": e["phase"]}
            for k in ("wl", "b", "updated", "val", "result"):
                if k in e:
                    r[k] = e[k]
            tr["events"].append(r)
        res["traces"][a] = tr
    res["ok"] = True
    return res
