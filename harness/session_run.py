"""Replays ONE history of Session.tla in this (fresh) process and prints the digest of the visible
result after every action.  stdin: {"contracts": [teal text], "orders": [[detector names]], "hist": [...]}"""
import hashlib
import json
import os
import sys

VERIF = os.path.dirname(os.path.dirname(os.path.abspath(__file__)))
sys.path.insert(0, VERIF)


def digest(tealer, name, results):
    from harness.observe import _ctx
    teal = tealer.contracts[name]
    func = teal.functions[name]
    ctx = {str(b.idx): _ctx(func.transaction_context(b)) for b in func.blocks}
    det = {}
    for res_list in results:
        for r in res_list:
            det[r.detector.NAME] = {"paths": [[int(b.idx) for b in p] for p in r.paths],
                                    "json": json.dumps(r.to_json())}
    blob = json.dumps({"ctx": ctx, "det": det}, sort_keys=True)
    return hashlib.sha256(blob.encode()).hexdigest()[:24]


def main():
    import logging
    logging.disable(logging.CRITICAL)
    from harness.observe import _load, _detector_classes
    _load()
    logging.disable(logging.CRITICAL)
    import contextlib
    import io
    from tealer.utils.command_line.common import init_tealer_from_single_contract
    job = json.load(sys.stdin)
    classes = _detector_classes()
    out = []
    tealer, name = None, None
    for k, a in enumerate(job["hist"]):
        buf = io.StringIO()
        try:
            with contextlib.redirect_stdout(buf), contextlib.redirect_stderr(buf):
                if a["kind"] == "analyse":
                    # every contract is analysed under the SAME name (as the CLI does for same-named files and the
                    # repository's tests do with "test"): state remembered per contract name across analyses must show
                    name = "contract"
                    tealer = init_tealer_from_single_contract(job["contracts"][a["c"] - 1], name)
                    for d in job["orders"][a["o"] - 1]:
                        tealer.register_detector(classes[d])
                results = tealer.run_detectors()
                dg = digest(tealer, name, results)
        except BaseException as e:  # noqa: BLE001
            dg = "EXC:%s:%s" % (type(e).__name__, str(e)[:60])
        out.append(dg)
    print(json.dumps(out))


if __name__ == "__main__":
    main()
