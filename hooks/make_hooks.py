"""One-off script that inserted the TEALER_VERIF hooks into /repo (kept for reference; the hooks are commits in /repo)."""
import sys
root = sys.argv[1] if len(sys.argv) > 1 else "/repo"

open(root + "/tealer/utils/verif_trace.py", "w").write('''"""Event tracing for the verification harness in /verif.

Disabled unless the environment variable TEALER_VERIF is set to 1; when disabled, emit() does nothing.
"""
import os
from typing import Any, Dict, List

_EVENTS: List[Dict[str, Any]] = []


def enabled() -> bool:
    return os.environ.get("TEALER_VERIF") == "1"


def emit(event: Dict[str, Any]) -> None:
    if enabled():
        _EVENTS.append(event)


def take() -> List[Dict[str, Any]]:
    """Return the recorded events and forget them."""
    events = list(_EVENTS)
    _EVENTS.clear()
    return events
''')

p = root + "/tealer/analyses/dataflow/transaction_context/generic.py"
s = open(p).read()
s = s.replace('''from tealer.utils.algorand_constants import MAX_GROUP_SIZE
from tealer.analyses.utils.stack_ast_builder import (''', '''from tealer.utils.algorand_constants import MAX_GROUP_SIZE
from tealer.utils import verif_trace
from tealer.analyses.utils.stack_ast_builder import (''', 1)

# helper methods (add-only), placed before forward_analyis
s = s.replace('''    def forward_analyis(self, analysis_keys: List[str], worklist: List["BasicBlock"]) -> None:''', '''    def _verif_traced(self, analysis_keys: List[str]) -> bool:
        # TEALER_VERIF hook: only the analyses whose values are plain sets are traced, base keys only.
        return (
            verif_trace.enabled()
            and self.__class__.__name__ in ("GroupIndices", "TxnType")
            and list(analysis_keys) == list(self.BASE_KEYS)
        )

    @staticmethod
    def _verif_value(value: Any) -> List[Any]:
        return sorted(v if isinstance(v, int) else str(v) for v in value)

    def _verif_emit(self, event: str, phase: str, analysis_keys: List[str], **fields: Any) -> None:
        record: Dict[str, Any] = {
            "ev": event,
            "phase": phase,
            "analysis": self.__class__.__name__,
            "contract": self._function.contract.contract_name,
            "function": self._function.function_name,
        }
        record.update(fields)
        verif_trace.emit(record)

    def forward_analyis(self, analysis_keys: List[str], worklist: List["BasicBlock"]) -> None:''', 1)

# forward: start / pop / done
s = s.replace('''                global_reachout[key][b] = self._null_set(key)

        while worklist:
            b = worklist[0]
            worklist = worklist[1:]
            updated = self._merge_information_forward(analysis_keys, b, global_reachout)
''', '''                global_reachout[key][b] = self._null_set(key)

        if self._verif_traced(analysis_keys):
            self._verif_emit(
                "init",
                "fwd",
                analysis_keys,
                keys=list(analysis_keys),
                univ=[self._verif_value(self._universal_set(k)) for k in analysis_keys],
                prsv=[
                    {"b": bi.idx, "val": [self._verif_value(self._block_contexts[k][bi]) for k in analysis_keys]}
                    for bi in self._function.blocks
                ],
                edges=[
                    {
                        "to": bi.idx,
                        "from": bj.idx,
                        "val": [self._verif_value(self._path_contexts[k][bi][bj]) for k in analysis_keys],
                    }
                    for bi in self._path_contexts[analysis_keys[0]]
                    for bj in self._path_contexts[analysis_keys[0]][bi]
                ],
            )
            self._verif_emit("start", "fwd", analysis_keys, wl=[bi.idx for bi in worklist])

        while worklist:
            b = worklist[0]
            worklist = worklist[1:]
            updated = self._merge_information_forward(analysis_keys, b, global_reachout)
''', 1)
s = s.replace('''                for bi in next_blocks_global(self._function, b) + return_point_block:
                    if bi not in worklist:
                        worklist.append(bi)

        for key in analysis_keys:
            self._block_contexts[key] = global_reachout[key]
''', '''                for bi in next_blocks_global(self._function, b) + return_point_block:
                    if bi not in worklist:
                        worklist.append(bi)

            if self._verif_traced(analysis_keys):
                self._verif_emit(
                    "pop",
                    "fwd",
                    analysis_keys,
                    b=b.idx,
                    updated=updated,
                    val=[self._verif_value(global_reachout[k][b]) for k in analysis_keys],
                    wl=[bi.idx for bi in worklist],
                )

        if self._verif_traced(analysis_keys):
            self._verif_emit("done", "fwd", analysis_keys, result=[])

        for key in analysis_keys:
            self._block_contexts[key] = global_reachout[key]
''', 1)
# backward
s = s.replace('''                else:
                    global_liveout[key][b] = self._null_set(key)

        while worklist:
            b = worklist[0]
            worklist = worklist[1:]
            updated = self._merge_information_backward(analysis_keys, b, global_liveout)
''', '''                else:
                    global_liveout[key][b] = self._null_set(key)

        if self._verif_traced(analysis_keys):
            self._verif_emit("start", "bwd", analysis_keys, wl=[bi.idx for bi in worklist])

        while worklist:
            b = worklist[0]
            worklist = worklist[1:]
            updated = self._merge_information_backward(analysis_keys, b, global_liveout)
''', 1)
s = s.replace('''                for bi in prev_blocks_global(self._function, b) + callsub_block:
                    if bi not in worklist:
                        worklist.append(bi)

        for key in analysis_keys:
            self._block_contexts[key] = global_liveout[key]
''', '''                for bi in prev_blocks_global(self._function, b) + callsub_block:
                    if bi not in worklist:
                        worklist.append(bi)

            if self._verif_traced(analysis_keys):
                self._verif_emit(
                    "pop",
                    "bwd",
                    analysis_keys,
                    b=b.idx,
                    updated=updated,
                    val=[self._verif_value(global_liveout[k][b]) for k in analysis_keys],
                    wl=[bi.idx for bi in worklist],
                )

        if self._verif_traced(analysis_keys):
            self._verif_emit(
                "done",
                "bwd",
                analysis_keys,
                result=[
                    {"b": bi.idx, "val": [self._verif_value(global_liveout[k][bi]) for k in analysis_keys]}
                    for bi in self._function.blocks
                ],
            )

        for key in analysis_keys:
            self._block_contexts[key] = global_liveout[key]
''', 1)
open(p, "w").write(s)
print("hooks inserted")
